(** Implementation model of [asn1tools.parser.ignore_comments]
    (asn1tools/parser.py, def ignore_comments).

    The Python code first collects the non-overlapping left-to-right matches
    (events) of a regular expression whose alternatives are, in this order:
    slash-star, star-slash, dash-dash, newline (unrepaired tree), and
    additionally the double quote (repaired tree,
    proposed_fixes/C14-scanner.diff).  It then runs a loop over the events
    with the variables [in_single_line_comment], [multi_line_comment_depth]
    (and, repaired, [in_character_string]), [start_offset],
    [non_comment_offset], collecting chunks that are either slices of the
    input or blanks.  Because the chunks tile the input from left to right,
    the result is determined character by character; the model is the
    corresponding one-pass machine:

    - [event2 c d] is the regex alternation on two adjacent characters: the
      event tokenisation does not depend on the loop state, so a two-character
      event that the loop ignores still consumes both characters (this is the
      quirk that makes the slash of a top-level star-slash unavailable for a
      following slash-star: star-slash-star at top level opens nothing);
    - [step2]/[step1] are the loop body for a two-character event, resp. for a
      position that is a one-character event (newline, quote) or no event;
    - the offset [i] is carried only to reproduce [start_offset], the
      position reported by the two [ParseSyntaxException]s raised after the loop.

    Characters are Python code points ([Z]).  [cfg] selects the unrepaired
    behaviour ([cfg_orig]: no string state, block comments blanked to spaces
    only) or the repaired one ([cfg_fixed]). *)
From Asn1V Require Import Base.Prelude.

Definition c_tab : Z := 9.
Definition c_nl : Z := 10.
Definition c_cr : Z := 13.
Definition c_space : Z := 32.
Definition c_quote : Z := 34.
Definition c_star : Z := 42.
Definition c_dash : Z := 45.
Definition c_slash : Z := 47.

Record cfg := { string_aware : bool; keep_newlines : bool }.
Definition cfg_orig := {| string_aware := false; keep_newlines := false |}.
Definition cfg_fixed := {| string_aware := true; keep_newlines := true |}.

(** Two-character events, in the order of the regex alternation. *)
Inductive event := EvOpen | EvClose | EvDash.
Definition event2 (c d : Z) : option event :=
  if (c =? c_slash) && (d =? c_star) then Some EvOpen
  else if (c =? c_star) && (d =? c_slash) then Some EvClose
  else if (c =? c_dash) && (d =? c_dash) then Some EvDash
  else None.

(** Loop state.  [Block n start] is multi_line_comment_depth = n + 1. *)
Inductive st :=
| Top
| Str
| Line (start : Z)
| Block (n : nat) (start : Z).

(** What a character inside a comment is replaced by. *)
Definition blank (cf : cfg) (c : Z) : Z :=
  if keep_newlines cf && (c =? c_nl) then c_nl else c_space.

(** Loop body on a two-character event at offset [i]: new state and the two
    output characters. *)
Definition step2 (cf : cfg) (q : st) (i : Z) (ev : event) (c d : Z) : st * Z * Z :=
  match q with
  | Line start =>
    match ev with
    | EvDash => (Top, c_space, c_space)             (* offset += 2; comment blanked *)
    | _ => (Line start, c_space, c_space)
    end
  | Block n start =>
    match ev with
    | EvOpen => (Block (S n) start, c_space, c_space)
    | EvClose => (match n with O => Top | S m => Block m start end, c_space, c_space)
    | EvDash => (Block n start, c_space, c_space)
    end
  | Str => (Str, c, d)
  | Top =>
    match ev with
    | EvDash => (Line i, c_space, c_space)
    | EvOpen => (Block O i, c_space, c_space)
    | EvClose => (Top, c, d)                         (* ignored, but both characters consumed *)
    end
  end.

(** Loop body on a position that is not part of a two-character event. *)
Definition step1 (cf : cfg) (q : st) (c : Z) : st * Z :=
  match q with
  | Line start => if c =? c_nl then (Top, c_nl) else (Line start, c_space)
  | Block n start => (Block n start, blank cf c)
  | Str => (if c =? c_quote then Top else Str, c)
  | Top => (if string_aware cf && (c =? c_quote) then Str else Top, c)
  end.

(** Output characters. *)
Fixpoint scan_out (cf : cfg) (q : st) (i : Z) (s : list Z) {struct s} : list Z :=
  match s with
  | [] => []
  | c :: t =>
    match t with
    | d :: r =>
      match event2 c d with
      | Some ev =>
        let '(q', o1, o2) := step2 cf q i ev c d in o1 :: o2 :: scan_out cf q' (i + 2) r
      | None =>
        let '(q', o) := step1 cf q c in o :: scan_out cf q' (i + 1) t
      end
    | [] => let '(q', o) := step1 cf q c in o :: scan_out cf q' (i + 1) t
    end
  end.

(** State after the last event. *)
Fixpoint scan_st (cf : cfg) (q : st) (i : Z) (s : list Z) {struct s} : st :=
  match s with
  | [] => q
  | c :: t =>
    match t with
    | d :: r =>
      match event2 c d with
      | Some ev => scan_st cf (fst (fst (step2 cf q i ev c d))) (i + 2) r
      | None => scan_st cf (fst (step1 cf q c)) (i + 1) t
      end
    | [] => scan_st cf (fst (step1 cf q c)) (i + 1) t
    end
  end.

Inductive outcome :=
| Blanked (t : list Z)
| MissingLineEnd (start : Z)     (* Missing newline or -- for single line comment *)
| MissingBlockEnd (start : Z).   (* Missing close for multi line comment *)

Definition ignore_comments_cfg (cf : cfg) (s : list Z) : outcome :=
  match scan_st cf Top 0 s with
  | Line start => MissingLineEnd start
  | Block _ start => MissingBlockEnd start
  | _ => Blanked (scan_out cf Top 0 s)
  end.

(** The repaired function (what the check expects of /repo) and the function
    as found in the unrepaired tree (subject of the [..._refuted] lemmas). *)
Definition ignore_comments := ignore_comments_cfg cfg_fixed.
Definition ignore_comments_orig := ignore_comments_cfg cfg_orig.

(** pyparsing's [lineno(loc, s)]: 1 + number of newlines before [loc]. *)
Fixpoint count_nl (s : list Z) : Z :=
  match s with
  | [] => 0
  | c :: t => (if c =? c_nl then 1 else 0) + count_nl t
  end.
Definition lineno (loc : nat) (s : list Z) : Z := 1 + count_nl (firstn loc s).

(** Helpers for the correspondence run: strings over a small alphabet are
    numbered in base [length alphabet] (little endian, shortest first is done
    by the harness); outcomes are coded as one number. *)
Fixpoint digits (base : Z) (len : nat) (n : Z) : list Z :=
  match len with
  | O => []
  | S l => (n mod base) :: digits base l (n / base)
  end.
Fixpoint index_of (x : Z) (l : list Z) : Z :=
  match l with
  | [] => 0
  | y :: r => if x =? y then 0 else 1 + index_of x r
  end.
Fixpoint undigits (base : Z) (ds : list Z) : Z :=
  match ds with
  | [] => 0
  | d :: r => d + base * undigits base r
  end.
Definition nth_char (alphabet : list Z) (d : Z) : Z := nth (Z.to_nat d) alphabet (-1).

(** Code of the outcome on a string of length [len]: the output read as a
    number over the alphabet (index [length alphabet] for a character outside
    it), or, beyond every such number, the start offset of the two errors. *)
Definition outcome_code (alphabet : list Z) (len : nat) (o : outcome) : Z :=
  let b := Z.of_nat (length alphabet) + 1 in
  match o with
  | Blanked t => undigits b (map (fun c => index_of c alphabet) t)
  | MissingLineEnd start => b ^ Z.of_nat len + start
  | MissingBlockEnd start => b ^ Z.of_nat len + 1000 + start
  end.
Definition code_at (cf : cfg) (alphabet : list Z) (len : nat) (n : Z) : Z :=
  outcome_code alphabet len
    (ignore_comments_cfg cf (map (nth_char alphabet) (digits (Z.of_nat (length alphabet)) len n))).

(** Reading many expected values into Coq is slow, so the comparison is done
    on fingerprints: both sides evaluate every case, and compare, per block of
    cases, the polynomial fingerprints sum (code_i + 1) r^(k-i) modulo the two
    Mersenne primes 2^31 - 1 and 2^61 - 1 for bases [r1], [r2] drawn at random by the harness.  A
    block whose fingerprints differ is then listed exactly ([sweep_codes],
    [rand_outcomes]). *)
Definition fold_mersenne (k x : Z) : Z :=
  let p := 2 ^ k - 1 in
  let y := Z.land x p + Z.shiftr x k in
  Z.land y p + Z.shiftr y k.
(** Residues modulo 2^31 - 1 and 2^61 - 1, not necessarily canonical (the
    harness computes the same function). *)
Definition fp_step (r1 r2 : Z) (acc : Z * Z) (code : Z) : Z * Z :=
  (fold_mersenne 31 (fst acc * r1 + code + 1), fold_mersenne 61 (snd acc * r2 + code + 1)).

Fixpoint sweep_fp (cf : cfg) (alphabet : list Z) (len : nat) (r1 r2 : Z) (count : nat) (n : Z)
         (acc : Z * Z) : Z * Z :=
  match count with
  | O => acc
  | S k => sweep_fp cf alphabet len r1 r2 k (n + 1) (fp_step r1 r2 acc (code_at cf alphabet len n))
  end.
(** [blocks]: (first string number, count). *)
Definition sweep_fps (cf : cfg) (alphabet : list Z) (len : nat) (r1 r2 : Z) (blocks : list (Z * Z))
  : list (Z * Z) :=
  map (fun b => sweep_fp cf alphabet len r1 r2 (Z.to_nat (snd b)) (fst b) (0, 0)) blocks.
Fixpoint sweep_codes (cf : cfg) (alphabet : list Z) (len : nat) (count : nat) (n : Z) : list Z :=
  match count with
  | O => []
  | S k => code_at cf alphabet len n :: sweep_codes cf alphabet len k (n + 1)
  end.

(** Pseudo-random long strings are generated on both sides from a seed by the
    same linear congruential generator. *)
Definition lcg (x : Z) : Z := (x * 1103515245 + 12345) mod 2147483648.
Fixpoint rand_string (alphabet : list Z) (len : nat) (x : Z) : list Z :=
  match len with
  | O => []
  | S l => let x' := lcg x in
           nth_char alphabet ((x' / 65536) mod Z.of_nat (length alphabet)) :: rand_string alphabet l x'
  end.
Definition rand_len (x : Z) : Z :=
  let u := (x / 65536) mod 100 in
  let v := x / 7 in
  if u <? 50 then 8 + v mod 9 else if u <? 85 then 17 + v mod 24 else 41 + v mod 80.
(** Case number i of a run: x_i = lcg x_(i-1), length [rand_len x_i], string
    [rand_string alphabet len x_i]. *)
Definition rand_case (cf : cfg) (alphabet : list Z) (x : Z) : nat * outcome :=
  let len := Z.to_nat (rand_len x) in
  (len, ignore_comments_cfg cf (rand_string alphabet len x)).
Fixpoint rand_fp (cf : cfg) (alphabet : list Z) (r1 r2 : Z) (count : nat) (x : Z) (acc : Z * Z) : Z * Z :=
  match count with
  | O => acc
  | S k =>
    let x' := lcg x in
    let '(len, o) := rand_case cf alphabet x' in
    rand_fp cf alphabet r1 r2 k x' (fp_step r1 r2 acc (outcome_code alphabet len o mod (2 ^ 61 - 1)))
  end.
(** [blocks]: (generator state before the block, count). *)
Definition rand_fps (cf : cfg) (alphabet : list Z) (r1 r2 : Z) (blocks : list (Z * Z)) : list (Z * Z) :=
  map (fun b => rand_fp cf alphabet r1 r2 (Z.to_nat (snd b)) (fst b) (0, 0)) blocks.
Fixpoint rand_outcomes (cf : cfg) (alphabet : list Z) (count : nat) (x : Z) : list outcome :=
  match count with
  | O => []
  | S k => let x' := lcg x in snd (rand_case cf alphabet x') :: rand_outcomes cf alphabet k x'
  end.
