(** Proofs of the finite checks of Lex/KeywordTable.v (by evaluation over the
    regenerated table) and their combination with the general keyword
    theorems of Lex/Layout.v. *)
From Asn1V Require Import Base.Prelude Base.Corr Lex.Comments Lex.Lexical Lex.Keyword
     Lex.CommentsProofs Lex.Refinement Lex.Layout Lex.KeywordTable.
From Asn1Gen Require Import Keywords.

Lemma scanner_alternatives_as_modelled : scanner_alternatives_ok = true.
Proof. vm_compute. reflexivity. Qed.

Lemma keywords_are_word_sequences_holds : keywords_are_word_sequences = true.
Proof. vm_compute. reflexivity. Qed.

Lemma keyword_words_reserved_holds : keyword_words_reserved = true.
Proof. vm_compute. reflexivity. Qed.

Lemma keyword_words_ok_holds : keyword_words_ok = true.
Proof. vm_compute. reflexivity. Qed.

Lemma keyword_layout_table_holds : keyword_layout_table cfg_fixed = true.
Proof. vm_compute. reflexivity. Qed.

Lemma literal_layout_only_single_space_holds : literal_layout_only_single_space = true.
Proof. vm_compute. reflexivity. Qed.

Lemma list_eqb_eq {A} (eqb : A -> A -> bool) :
  (forall x y, eqb x y = true -> x = y) -> forall l1 l2, list_eqb eqb l1 l2 = true -> l1 = l2.
Proof.
  intros E. induction l1 as [|a l1 IH]; intros [|b l2] H; try discriminate; [reflexivity|].
  cbn in H. apply andb_true_iff in H. destruct H as [H1 H2]. f_equal; [apply E|apply IH]; assumption.
Qed.

Lemma zlist_eqb_eq l1 l2 : zlist_eqb l1 l2 = true -> l1 = l2.
Proof. apply list_eqb_eq. intros x y H. apply Z.eqb_eq. exact H. Qed.

Lemma zlists_eqb_eq l1 l2 : zlists_eqb l1 l2 = true -> l1 = l2.
Proof. apply list_eqb_eq. exact zlist_eqb_eq. Qed.

Lemma word_okb_ok w : word_okb w = true -> word_ok w.
Proof.
  intros H. split.
  - intros ->. discriminate H.
  - destruct w as [|c w]; [discriminate|]. unfold word_okb in H. rewrite forallb_forall in H.
    apply Forall_forall. intros x Hx. specialize (H x Hx). apply andb_true_iff in H.
    destruct H as [H1 H2]. split; [exact H1|]. destruct (pp_white x); [discriminate|reflexivity].
Qed.

(** Every multi-word keyword of parser.py's grammar matches its words
    separated by ANY non-empty white space (hence, by [blank_tokens], by any
    comments): the layout between the words of OCTET STRING, WITH COMPONENTS,
    ANY DEFINED BY, ... is irrelevant. *)
Theorem keyword_table_layout_independent e seps rest :
  In e multi_word_keywords ->
  Forall sep_ok seps -> length seps = pred (length (fst e)) -> boundary_ok rest ->
  kw_match (snd e) (join_words (fst e) seps ++ rest) = true.
Proof.
  intros HI HS HL B.
  pose proof keywords_are_word_sequences_holds as K1. unfold keywords_are_word_sequences in K1.
  rewrite forallb_forall in K1. specialize (K1 e HI). unfold entry_is_words in K1.
  pose proof keyword_words_ok_holds as K2. unfold keyword_words_ok in K2.
  rewrite forallb_forall in K2. specialize (K2 e HI). rewrite forallb_forall in K2.
  destruct (snd e) as [text|ws]; [discriminate|]. apply zlists_eqb_eq in K1. subst ws.
  apply keyword_words_layout_independent; auto.
  apply Forall_forall. intros w Hw. apply word_okb_ok. apply K2. exact Hw.
Qed.
