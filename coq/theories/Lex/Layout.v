(** Consequences of the refinement theorem: what the blanked text looks like
    in terms of the X.680 classification (positions outside comments, string
    literals, comment text), the token sequence a comment-unaware scanner
    finds in it, and layout independence of parsing relative to a grammar
    that depends on that token sequence only. *)
From Asn1V Require Import Base.Prelude Lex.Comments Lex.Lexical Lex.CommentsProofs
     Lex.Refinement Lex.Keyword.

(** * The classification covers the text *)

Lemma lex_cons_ok k r cl : lex_cons k r = LexOk cl -> exists cl', r = LexOk cl' /\ cl = k :: cl'.
Proof. destruct r; cbn; intros H; inversion H. eauto. Qed.

Lemma lex_app_ok l r cl : lex_app l r = LexOk cl -> exists cl', r = LexOk cl' /\ cl = l ++ cl'.
Proof. destruct r; cbn; intros H; inversion H. eauto. Qed.

Lemma classify_length cm : forall s n k i cl, classify cm n k i s = LexOk cl -> length cl = length s.
Proof.
  induction s as [|c t IH]; intros n k i cl H.
  - cbn in H. inversion H. reflexivity.
  - destruct n as [|p].
    + rewrite classify_top_cons in H.
      repeat match type of H with
             | (if ?b then _ else _) = _ => destruct b
             | match ?x with _ => _ end = _ => destruct x
             end;
        try discriminate;
        apply lex_cons_ok in H; destruct H as (cl' & H & ->);
        apply IH in H; cbn [length] in *; lia.
    + change (classify cm (S p) k i (c :: t)) with (lex_cons k (classify cm p k (i + 1) t)) in H.
      apply lex_cons_ok in H. destruct H as (cl' & H & ->). apply IH in H. cbn [length]. lia.
Qed.

Lemma lex_length s cl : lex s = LexOk cl -> length cl = length s.
Proof. apply classify_length. Qed.

(** * Corollaries of the refinement theorem *)

Lemma refines_ok s cl : lex s = LexOk cl -> ignore_comments s = Blanked (render s cl).
Proof. intros H. pose proof (blank_refines_lexical s) as R. rewrite H in R. exact R. Qed.

Lemma render_nth : forall s cl k c q,
  nth_error s k = Some c -> nth_error cl k = Some q ->
  nth_error (render s cl) k = Some (match q with Com => if c =? 10 then 10 else 32 | _ => c end).
Proof.
  induction s as [|a s IH]; intros [|b cl] [|k] c q H1 H2; try discriminate.
  - cbn in *. inversion H1; inversion H2; subst. reflexivity.
  - cbn in *. apply IH; assumption.
Qed.

(** Positions outside comments are unchanged. *)
Theorem blank_outside_comments_identity s cl t :
  lex s = LexOk cl -> ignore_comments s = Blanked t ->
  forall k c q, nth_error s k = Some c -> nth_error cl k = Some q -> q <> Com ->
                nth_error t k = Some c.
Proof.
  intros L B k c q H1 H2 NC. rewrite (refines_ok s cl L) in B. inversion B; subst t.
  rewrite (render_nth s cl k c q H1 H2). destruct q; [reflexivity|reflexivity|contradiction].
Qed.

(** Text inside character string literals is untouched. *)
Theorem string_literals_untouched s cl t :
  lex s = LexOk cl -> ignore_comments s = Blanked t ->
  forall k, nth_error cl k = Some Lit -> nth_error t k = nth_error s k.
Proof.
  intros L B k H. pose proof (lex_length s cl L) as Len.
  destruct (nth_error s k) as [c|] eqn:E.
  - apply (blank_outside_comments_identity s cl t L B k c Lit E H). discriminate.
  - apply nth_error_None in E. assert (nth_error cl k <> None) by congruence.
    apply nth_error_Some in H0. lia.
Qed.

(** Comment positions hold a space, or the newline that was there. *)
Theorem blank_comment_positions s cl t :
  lex s = LexOk cl -> ignore_comments s = Blanked t ->
  forall k c, nth_error s k = Some c -> nth_error cl k = Some Com ->
              nth_error t k = Some (if c =? 10 then 10 else 32).
Proof.
  intros L B k c H1 H2. rewrite (refines_ok s cl L) in B. inversion B; subst t.
  apply (render_nth s cl k c Com H1 H2).
Qed.

Lemma render_ext : forall cl s1 s2,
  length s1 = length cl -> length s2 = length cl ->
  (forall k q, nth_error cl k = Some q -> q <> Com -> nth_error s1 k = nth_error s2 k) ->
  (forall k, nth_error s1 k = Some 10 <-> nth_error s2 k = Some 10) ->
  render s1 cl = render s2 cl.
Proof.
  induction cl as [|q cl IH]; intros [|a s1] [|b s2] L1 L2 HA HN; try discriminate; try reflexivity.
  cbn [render]. f_equal.
  - destruct q.
    + specialize (HA O Code eq_refl). cbn in HA. assert (Some a = Some b) by (apply HA; discriminate).
      congruence.
    + specialize (HA O Lit eq_refl). cbn in HA. assert (Some a = Some b) by (apply HA; discriminate).
      congruence.
    + specialize (HN O). cbn in HN. consts.
      destruct (Z.eqb_spec a 10), (Z.eqb_spec b 10); try reflexivity; subst.
      * exfalso. apply n. assert (Some b = Some 10) by (apply HN; reflexivity). congruence.
      * exfalso. apply n. assert (Some a = Some 10) by (apply HN; reflexivity). congruence.
  - apply IH; cbn in *; try lia.
    + intros k q' H NC. apply (HA (S k) q' H NC).
    + intros k. apply (HN (S k)).
Qed.

(** Comment text never influences the result: two texts with the same comment
    and literal extents and the same line structure that agree outside their
    comments blank to the same text. *)
Theorem blank_ignores_comment_text s1 s2 cl :
  lex s1 = LexOk cl -> lex s2 = LexOk cl ->
  (forall k q, nth_error cl k = Some q -> q <> Com -> nth_error s1 k = nth_error s2 k) ->
  (forall k, nth_error s1 k = Some 10 <-> nth_error s2 k = Some 10) ->
  ignore_comments s1 = ignore_comments s2.
Proof.
  intros L1 L2 HA HN. rewrite (refines_ok s1 cl L1), (refines_ok s2 cl L2). f_equal.
  apply render_ext; auto using eq_sym, lex_length.
Qed.

(** The specification accepts a text exactly when the scanner does, and an
    unterminated comment is reported at the same offset. *)
Theorem blank_error_positions s :
  (forall p, lex s = OpenLineComment p -> ignore_comments s = MissingLineEnd p) /\
  (forall p, lex s = OpenBlockComment p -> ignore_comments s = MissingBlockEnd p).
Proof.
  pose proof (blank_refines_lexical s) as R.
  split; intros p H; rewrite H in R; exact R.
Qed.

(** The unrepaired scanner violates all of this on a literal that contains a
    pair of hyphens: it opens a comment inside the literal. *)
Theorem string_literals_untouched_refuted :
  exists s cl t k, lex s = LexOk cl /\ ignore_comments_orig s = Blanked t /\
                   nth_error cl k = Some Lit /\ nth_error t k <> nth_error s k.
Proof.
  exists [34; 45; 45; 34; 10], [Lit; Lit; Lit; Lit; Code], [34; 32; 32; 32; 10], 1%nat.
  repeat split; try reflexivity. cbn. discriminate.
Qed.

Theorem string_literal_acceptance_refuted :
  exists s cl, lex s = LexOk cl /\ ignore_comments_orig s = MissingLineEnd 1.
Proof. exists [34; 45; 45; 34], [Lit; Lit; Lit; Lit]. split; reflexivity. Qed.

(** The state-independent event tokenisation (kept by the repair) differs from
    X.680 only on a text with an asterisk outside comments and literals, which
    is no lexical item of X.680. *)
Theorem stray_asterisk_quirk :
  exists s, lex s = StrayAsterisk 0 /\ ignore_comments s = Blanked s /\
            classify true O Code 1 (tl s) = LexOk [Com; Com; Com; Com].
Proof. exists [42; 47; 42; 42; 47]. repeat split; reflexivity. Qed.

(** * The tokens a comment-unaware scanner finds in the blanked text *)

Definition decom (q : cls) : cls := match q with Com => Code | q => q end.

Definition not_quote_hd (u : list Z) : Prop := match u with c :: _ => c <> 34 | [] => True end.

Lemma cstring_rest_prefix : forall t k u,
  cstring_rest t = Some k -> not_quote_hd u -> cstring_rest (firstn k t ++ u) = Some k.
Proof.
  intro t. induction t as [| c | c d r IH1 IH2] using list_ind2; intros k u H NQ.
  - discriminate.
  - rewrite cstring_rest_cons in H. destruct (Z.eqb_spec c 34) as [E|E]; [|discriminate].
    inversion H; subst. cbn [firstn app]. rewrite cstring_rest_cons. cbn.
    destruct u as [|e u']; [reflexivity|]. cbn in NQ.
    destruct (Z.eqb_spec e 34); [contradiction|reflexivity].
  - rewrite cstring_rest_cons in H. destruct (Z.eqb_spec c 34) as [E|E].
    + subst c. destruct (Z.eqb_spec d 34) as [E2|E2].
      * subst d. destruct (cstring_rest r) as [k'|] eqn:R; [|discriminate].
        inversion H; subst. cbn [firstn app]. rewrite cstring_rest_cons. cbn.
        rewrite (IH1 k' u eq_refl NQ). reflexivity.
      * inversion H; subst. cbn [firstn app]. rewrite cstring_rest_cons. cbn.
        destruct u as [|e u']; [reflexivity|]. cbn in NQ.
        destruct (Z.eqb_spec e 34); [contradiction|reflexivity].
    + destruct (cstring_rest (d :: r)) as [k'|] eqn:R; [|discriminate].
      inversion H; subst.
      change (firstn (S k') (c :: d :: r)) with (c :: firstn k' (d :: r)). cbn [app].
      rewrite cstring_rest_cons. destruct (Z.eqb_spec c 34); [contradiction|].
      rewrite (IH2 k' u eq_refl NQ). reflexivity.
Qed.

(** The character after a literal is not a quotation mark, and the extent is
    within the text. *)
Lemma cstring_rest_next : forall t k,
  cstring_rest t = Some k -> (k <= length t)%nat /\ not_quote_hd (skipn k t).
Proof.
  intro t. induction t as [| c | c d r IH1 IH2] using list_ind2; intros k H.
  - discriminate.
  - rewrite cstring_rest_cons in H. destruct (c =? 34); [|discriminate].
    inversion H; subst. cbn. split; [lia|exact I].
  - rewrite cstring_rest_cons in H. destruct (Z.eqb_spec c 34) as [E|E].
    + destruct (Z.eqb_spec d 34) as [E2|E2].
      * destruct (cstring_rest r) as [k'|] eqn:R; [|discriminate]. inversion H; subst.
        destruct (IH1 k' eq_refl) as [L N]. cbn [length skipn]. split; [lia|exact N].
      * inversion H; subst. cbn [length skipn]. split; [lia|exact E2].
    + destruct (cstring_rest (d :: r)) as [k'|] eqn:R; [|discriminate]. inversion H; subst.
      destruct (IH2 k' eq_refl) as [L N]. cbn [length] in *. split; [lia|].
      change (skipn (S k') (c :: d :: r)) with (skipn k' (d :: r)). exact N.
Qed.

Lemma render_hd s cl : not_quote_hd s -> not_quote_hd (render s cl).
Proof.
  destruct s as [|c s], cl as [|q cl]; cbn; auto. intros H.
  destruct q; auto. destruct (c =? LF); unfold LF, SPACE; lia.
Qed.

(** A run of characters that are not quotation marks is code for the
    comment-unaware scanner. *)
Lemma plain_run : forall u v i,
  Forall (fun c => c <> 34) u ->
  classify false O Code i (u ++ v) =
  lex_app (repeat Code (length u)) (classify false O Code (i + Z.of_nat (length u)) v).
Proof.
  induction u as [|c u IH]; intros v i H.
  - cbn [app length repeat]. change (Z.of_nat 0) with 0. replace (i + 0) with i by lia.
    destruct (classify false O Code i v); reflexivity.
  - inversion H; subst. cbn [app]. rewrite classify_top_cons.
    destruct (Z.eqb_spec c 34); [contradiction|]. cbn [negb].
    rewrite IH by assumption. rewrite lex_cons_app, lex_app_app. cbn [length repeat app].
    replace (i + 1 + Z.of_nat (length u)) with (i + Z.of_nat (S (length u))) by lia. reflexivity.
Qed.

Lemma blank_no_quote u : Forall (fun c => c <> 34) (map (blank F) u).
Proof.
  induction u as [|c u IH]; constructor; [|exact IH].
  unfold blank. cbn. destruct (c =? c_nl); unfold c_nl, c_space; lia.
Qed.

Lemma skipn_firstn_app {A} k (t u : list A) : (k <= length t)%nat -> skipn k (firstn k t ++ u) = u.
Proof.
  intros L. rewrite skipn_app, firstn_length. replace (k - Nat.min k (length t))%nat with O by lia.
  rewrite skipn_all2 by (rewrite firstn_length; lia). reflexivity.
Qed.

Lemma plain_of_render : forall n s i j cl,
  (length s <= n)%nat -> classify true O Code i s = LexOk cl ->
  classify false O Code j (render s cl) = LexOk (map decom cl).
Proof.
  induction n as [|n IH]; intros s i j cl L H.
  - destruct s; [|cbn in L; lia]. cbn in H. inversion H. reflexivity.
  - destruct s as [|c t]; [cbn in H; inversion H; reflexivity|]. cbn [length] in L.
    rewrite classify_top_cons in H. destruct (Z.eqb_spec c 34) as [Q|Q].
    { subst c. destruct (cstring_rest t) as [k|] eqn:R; [|discriminate].
      destruct (cstring_rest_next t k R) as [Lk NQ].
      rewrite (classify_pending true k Lit (i + 1) t Lk), lex_cons_app, lex_app_app in H.
      apply lex_app_ok in H. destruct H as (cl' & H & ->).
      cbn [app render map decom]. rewrite <- (firstn_skipn k t) at 1.
      rewrite render_app by (rewrite repeat_length; apply firstn_le_length; exact Lk).
      rewrite <- (firstn_le_length k t Lk) at 2. rewrite render_lit.
      rewrite classify_top_cons. cbn.
      rewrite (cstring_rest_prefix t k _ R (render_hd _ cl' NQ)).
      rewrite (classify_pending false k Lit (j + 1)) by (rewrite app_length, firstn_length; lia).
      rewrite (skipn_firstn_app k t _ Lk).
      rewrite (IH (skipn k t) _ (j + 1 + Z.of_nat k) cl') by (rewrite ?skipn_length; lia || exact H).
      cbn. rewrite map_app. f_equal. f_equal.
      clear. induction k; cbn; congruence. }
    cbn [negb] in H. destruct (Z.eqb_spec c 42) as [A|A]; [discriminate|].
    destruct t as [|d r].
    { apply lex_cons_ok in H. destruct H as (cl' & H & ->). cbn in H. inversion H; subst.
      cbn [render map decom]. rewrite classify_top_cons.
      destruct (Z.eqb_spec c 34); [contradiction|]. reflexivity. }
    cbn [length] in L.
    destruct ((c =? 45) && (d =? 45)) eqn:DD.
    { apply andb_true_iff in DD. destruct DD as [Ec Ed].
      apply Z.eqb_eq in Ec. apply Z.eqb_eq in Ed. subst c d.
      pose proof (line_sim r 0 0) as SS.
      destruct (line_comment_rest r) as [k|]; [|discriminate]. destruct SS as (Lk & _ & _).
      rewrite (classify_pending true (S k) Com (i + 1) (45 :: r)) in H by (cbn [length]; lia).
      rewrite lex_cons_app, lex_app_app in H. cbn [skipn] in H.
      apply lex_app_ok in H. destruct H as (cl' & H & ->).
      cbn [repeat app render]. change (45 =? LF) with false. cbv iota. change SPACE with 32.
      rewrite <- (firstn_skipn k r) at 1.
      rewrite render_app by (rewrite repeat_length; apply firstn_le_length; exact Lk).
      rewrite <- (firstn_le_length k r Lk) at 2. rewrite render_com.
      change (32 :: 32 :: map (blank F) (firstn k r) ++ render (skipn k r) cl')
        with ((32 :: 32 :: map (blank F) (firstn k r)) ++ render (skipn k r) cl').
      rewrite plain_run by (constructor; [lia|constructor; [lia|apply blank_no_quote]]).
      rewrite (IH (skipn k r) _ _ cl') by (rewrite ?skipn_length; lia || exact H).
      cbn [length lex_app repeat app map decom]. rewrite map_length, (firstn_le_length k r Lk).
      rewrite map_app. do 4 f_equal. clear. induction k; cbn; congruence. }
    destruct ((c =? 47) && (d =? 42)) eqn:OP.
    { apply andb_true_iff in OP. destruct OP as [Ec Ed].
      apply Z.eqb_eq in Ec. apply Z.eqb_eq in Ed. subst c d.
      pose proof (block_sim r O 0 0) as SS.
      destruct (block_comment_rest O r) as [k|]; [|discriminate]. destruct SS as (Lk & _ & _).
      rewrite (classify_pending true (S k) Com (i + 1) (42 :: r)) in H by (cbn [length]; lia).
      rewrite lex_cons_app, lex_app_app in H. cbn [skipn] in H.
      apply lex_app_ok in H. destruct H as (cl' & H & ->).
      cbn [repeat app render]. change (47 =? LF) with false. change (42 =? LF) with false.
      cbv iota. change SPACE with 32.
      rewrite <- (firstn_skipn k r) at 1.
      rewrite render_app by (rewrite repeat_length; apply firstn_le_length; exact Lk).
      rewrite <- (firstn_le_length k r Lk) at 2. rewrite render_com.
      change (32 :: 32 :: map (blank F) (firstn k r) ++ render (skipn k r) cl')
        with ((32 :: 32 :: map (blank F) (firstn k r)) ++ render (skipn k r) cl').
      rewrite plain_run by (constructor; [lia|constructor; [lia|apply blank_no_quote]]).
      rewrite (IH (skipn k r) _ _ cl') by (rewrite ?skipn_length; lia || exact H).
      cbn [length lex_app repeat app map decom]. rewrite map_length, (firstn_le_length k r Lk).
      rewrite map_app. do 4 f_equal. clear. induction k; cbn; congruence. }
    apply lex_cons_ok in H. destruct H as (cl' & H & ->).
    change (render (c :: d :: r) (Code :: cl')) with (c :: render (d :: r) cl').
    cbn [map decom]. rewrite classify_top_cons.
    destruct (Z.eqb_spec c 34); [contradiction|]. cbn [negb].
    rewrite (IH (d :: r) (i + 1) (j + 1) cl') by (cbn [length]; lia || exact H). reflexivity.
Qed.

(** pyparsing's default white space lacks VT and FF, which X.680 12.1.6
    lists: the two agree on a text whose code positions hold neither. *)
Fixpoint vtff_free (s : list Z) (cl : list cls) : bool :=
  match s, cl with
  | c :: s', q :: cl' =>
    (match q with Code => negb ((c =? 11) || (c =? 12)) | _ => true end) && vtff_free s' cl'
  | _, _ => true
  end.

Lemma items_render : forall s cl,
  vtff_free s cl = true ->
  items pp_white (render s cl) (map decom cl) = items is_white_space s cl.
Proof.
  induction s as [|c s IH]; intros [|q cl] H; try reflexivity.
  cbn [vtff_free] in H. apply andb_true_iff in H. destruct H as [H1 H2].
  cbn [render map items]. rewrite (IH cl H2). f_equal.
  destruct q; cbn [decom item_of].
  - unfold pp_white, is_white_space. consts.
    destruct (c =? 11), (c =? 12); try discriminate.
    destruct (c =? 32), (c =? 10), (c =? 9), (c =? 13); reflexivity.
  - reflexivity.
  - consts. destruct (c =? 10); reflexivity.
Qed.

(** After blanking, a scanner that knows literals and pyparsing's white space
    but no comments finds exactly the X.680 token sequence. *)
Theorem blank_tokens s cl :
  lex s = LexOk cl -> vtff_free s cl = true ->
  exists t, ignore_comments s = Blanked t /\ plain_tokens pp_white t = spec_tokens s.
Proof.
  intros L V. exists (render s cl). split; [apply refines_ok; exact L|].
  unfold plain_tokens, spec_tokens. rewrite L.
  rewrite (plain_of_render (length s) s 0 0 cl (le_n _) L).
  rewrite (items_render s cl V). reflexivity.
Qed.

Definition clean (s : list Z) : Prop :=
  match lex s with LexOk cl => vtff_free s cl = true | _ => False end.

(** ** Layout invariance relative to a token-based grammar

    pyparsing is not modelled.  It is represented by the function [grammar]
    from the blanked text to an optional result, and assumed to depend only on
    the token sequence that a comment-unaware scanner with pyparsing's white
    space finds in that text ([grammar_lexical]).  The assumption is what
    harness/c14.py tests on /repo; it is false for the unrepaired tree, where
    a multi-word keyword is one literal with embedded spaces (see
    [keyword_literal_layout_refuted]). *)
Section Grammar.
  Variable dict : Type.
  Variable grammar : list Z -> option dict.
  Variable token_grammar : list token -> option dict.
  Hypothesis grammar_lexical :
    forall t toks, plain_tokens pp_white t = Some toks -> grammar t = token_grammar toks.

  Definition parse_string (s : list Z) : option dict :=
    match ignore_comments s with
    | Blanked t => grammar t
    | _ => None
    end.

  Theorem layout_invariance s1 s2 toks :
    spec_tokens s1 = Some toks -> spec_tokens s2 = Some toks -> clean s1 -> clean s2 ->
    parse_string s1 = parse_string s2.
  Proof.
    intros T1 T2 C1 C2. unfold clean in *.
    destruct (lex s1) as [cl1| | | |] eqn:L1; try contradiction.
    destruct (lex s2) as [cl2| | | |] eqn:L2; try contradiction.
    destruct (blank_tokens s1 cl1 L1 C1) as (t1 & B1 & P1).
    destruct (blank_tokens s2 cl2 L2 C2) as (t2 & B2 & P2).
    unfold parse_string. rewrite B1, B2.
    rewrite (grammar_lexical t1 toks) by congruence.
    rewrite (grammar_lexical t2 toks) by congruence. reflexivity.
  Qed.

  (** A syntax error that the grammar reports at offset [loc] of the blanked
      text is on the same line of the given text. *)
  Theorem error_line_preserved s t loc :
    ignore_comments s = Blanked t -> lineno loc t = lineno loc s.
  Proof. intros H. apply blank_keeps_lineno. exact H. Qed.
End Grammar.

(** * Multi-word keywords *)

Definition all_white (sep : list Z) : Prop := Forall (fun c => pp_white c = true) sep.

Lemma strip_prefix_app m : forall s r, strip_prefix m s = Some r -> s = m ++ r.
Proof.
  induction m as [|a m IH]; intros s r H.
  - cbn in H. inversion H. reflexivity.
  - destruct s as [|b s]; [discriminate|]. cbn in H.
    destruct (Z.eqb_spec a b); [|discriminate]. subst. cbn. f_equal. apply IH. exact H.
Qed.

Lemma strip_prefix_self m : forall r, strip_prefix m (m ++ r) = Some r.
Proof.
  induction m as [|a m IH]; intros r; [reflexivity|]. cbn. rewrite Z.eqb_refl. apply IH.
Qed.

(** What the code of the unrepaired tree does with a two-word keyword literal
    [w1 ++ " " ++ w2]: when the words are separated by white space [sep] it
    can match only if [sep] is exactly one space. *)
Theorem keyword_literal_single_space w1 w2 sep rest :
  all_white sep -> sep <> [] ->
  (match w1 with c :: _ => pp_white c = false | [] => False end) ->
  (match w2 with c :: _ => pp_white c = false | [] => False end) ->
  kw_match (KwLiteral (w1 ++ [32] ++ w2)) (w1 ++ sep ++ w2 ++ rest) = true ->
  sep = [32].
Proof.
  intros W NE H1 H2 M. unfold kw_match, keyword_at in M.
  destruct w1 as [|a w1]; [contradiction|]. cbn [app skip_white] in M. rewrite H1 in M.
  destruct (strip_prefix _ _) as [r|] eqn:SP; [|discriminate]. clear M.
  apply strip_prefix_app in SP. cbn [app] in SP. inversion SP as [E]. clear SP.
  rewrite <- app_assoc in E. apply app_inv_head in E.
  destruct sep as [|b sep]; [contradiction|]. cbn [app] in E. inversion E as [[Eb E']]. subst b.
  destruct sep as [|b sep]; [reflexivity|]. exfalso.
  destruct w2 as [|e w2]; [contradiction|]. cbn [app] in E'. inversion E' as [[Eb E'']]. subst b.
  inversion W as [|? ? _ W']; subst. inversion W' as [|? ? Wb _]; subst. congruence.
Qed.

(** A keyword literal rejects its words when they are separated by a newline,
    a tab, two spaces, or a (blanked) comment. *)
Theorem keyword_literal_layout_refuted :
  exists sep, all_white sep /\ sep <> [] /\
    kw_match (KwLiteral (codes "OCTET STRING")) (codes "OCTET" ++ sep ++ codes "STRING") = false.
Proof.
  exists [10]. split; [repeat constructor|]. split; [discriminate|]. vm_compute. reflexivity.
Qed.

(** What the repaired tree does: every word is a keyword terminal of its own,
    so any non-empty white space between the words is accepted. *)
Definition word_ok (w : list Z) : Prop :=
  w <> [] /\ Forall (fun c => ident_char c = true /\ pp_white c = false) w.

Lemma skip_white_app sep s :
  all_white sep -> skip_white (sep ++ s) = skip_white s.
Proof.
  induction 1 as [|c sep Hc _ IH]; [reflexivity|]. cbn [app skip_white]. rewrite Hc. exact IH.
Qed.

Lemma skip_white_word w s : word_ok w -> skip_white (w ++ s) = w ++ s.
Proof.
  intros [NE H]. destruct w as [|c w]; [contradiction|]. inversion H as [|? ? [_ Hc] _]; subst.
  cbn [app skip_white]. rewrite Hc. reflexivity.
Qed.

Definition boundary_ok (rest : list Z) : Prop :=
  match rest with c :: _ => ident_char c = false | [] => True end.

Lemma keyword_at_word w prev s rest :
  word_ok w -> boundary_ok rest ->
  (match prev with Some p => ident_char p = false | None => True end) ->
  s = w ++ rest ->
  keyword_at w prev s = Some (last (map Some w) prev, rest).
Proof.
  intros WO B P ->. unfold keyword_at. rewrite (skip_white_word w rest WO), strip_prefix_self.
  destruct WO as [NE H]. destruct w as [|c w]; [contradiction|].
  inversion H as [|? ? [_ Hc] _]; subst. cbn [app]. rewrite Hc.
  assert (A : (match rest with c0 :: _ => negb (ident_char c0) | [] => true end) = true).
  { destruct rest; [reflexivity|]. cbn in B. rewrite B. reflexivity. }
  rewrite A. destruct prev as [p|]; [rewrite P|]; reflexivity.
Qed.

Lemma keyword_at_white w prev sep s :
  all_white sep -> sep <> [] -> keyword_at w prev (sep ++ s) = keyword_at w None s.
Proof.
  intros W NE. destruct sep as [|c sep]; [contradiction|]. inversion W as [|? ? Hc W']; subst.
  unfold keyword_at. cbn [app]. rewrite Hc. cbn [skip_white]. rewrite Hc.
  rewrite (skip_white_app sep s W').
  destruct s as [|d s']; [reflexivity|]. destruct (pp_white d) eqn:E; reflexivity.
Qed.

Theorem keyword_words_any_layout w1 w2 sep rest :
  word_ok w1 -> word_ok w2 -> all_white sep -> sep <> [] -> boundary_ok rest ->
  kw_match (KwWords [w1; w2]) (w1 ++ sep ++ w2 ++ rest) = true.
Proof.
  intros O1 O2 W NE B. unfold kw_match. cbn [keywords_at].
  rewrite (keyword_at_word w1 None _ (sep ++ w2 ++ rest) O1); auto.
  - rewrite (keyword_at_white w2 _ sep (w2 ++ rest) W NE).
    rewrite (keyword_at_word w2 None _ rest O2); auto.
  - destruct sep as [|c sep]; [contradiction|]. inversion W as [|? ? Hc _]; subst. cbn.
    unfold pp_white in Hc. unfold ident_char.
    destruct (Z.eqb_spec c 32), (Z.eqb_spec c 10), (Z.eqb_spec c 9), (Z.eqb_spec c 13);
      subst; try reflexivity; discriminate.
Qed.

(** Any number of words. *)
Definition prev_ok (prev : option Z) : Prop :=
  match prev with Some p => ident_char p = false | None => True end.

Lemma white_not_ident c : pp_white c = true -> ident_char c = false.
Proof.
  unfold pp_white, ident_char. intros H.
  destruct (Z.eqb_spec c 32), (Z.eqb_spec c 10), (Z.eqb_spec c 9), (Z.eqb_spec c 13);
    subst; try reflexivity; discriminate.
Qed.

Lemma keywords_at_white w ws prev sep s :
  all_white sep -> sep <> [] ->
  keywords_at (w :: ws) prev (sep ++ s) = keywords_at (w :: ws) None s.
Proof. intros W NE. cbn [keywords_at]. rewrite (keyword_at_white w prev sep s W NE). reflexivity. Qed.

Definition sep_ok (sep : list Z) : Prop := all_white sep /\ sep <> [].

Lemma keywords_at_join : forall ws seps prev rest,
  Forall word_ok ws -> Forall sep_ok seps -> length seps = pred (length ws) ->
  boundary_ok rest -> prev_ok prev ->
  exists p, keywords_at ws prev (join_words ws seps ++ rest) = Some (p, rest).
Proof.
  induction ws as [|w ws IH]; intros seps prev rest HW HS HL B P.
  - exists prev. reflexivity.
  - inversion HW as [|? ? Hw HW']; subst. destruct ws as [|w' ws'].
    + cbn [join_words keywords_at].
      rewrite (keyword_at_word w prev _ rest Hw B P eq_refl). eexists. reflexivity.
    + destruct seps as [|sep seps']; [discriminate|]. inversion HS as [|? ? [Wsep NE] HS']; subst.
      cbn [length pred] in HL.
      change (join_words (w :: w' :: ws') (sep :: seps')) with (w ++ sep ++ join_words (w' :: ws') seps').
      rewrite <- !app_assoc.
      change (keywords_at (w :: w' :: ws') prev (w ++ sep ++ join_words (w' :: ws') seps' ++ rest))
        with (match keyword_at w prev (w ++ sep ++ join_words (w' :: ws') seps' ++ rest) with
              | Some (p, r) => keywords_at (w' :: ws') p r | None => None end).
      rewrite (keyword_at_word w prev _ (sep ++ join_words (w' :: ws') seps' ++ rest) Hw); auto.
      * rewrite (keywords_at_white w' ws' _ sep _ Wsep NE).
        apply (IH seps' None rest HW' HS'); [cbn [length pred] in *; lia | exact B | exact I].
      * destruct sep as [|c sep]; [contradiction|]. inversion Wsep; subst. cbn.
        apply white_not_ident. assumption.
Qed.

Theorem keyword_words_layout_independent ws seps rest :
  Forall word_ok ws -> Forall sep_ok seps -> length seps = pred (length ws) -> boundary_ok rest ->
  kw_match (KwWords ws) (join_words ws seps ++ rest) = true.
Proof.
  intros HW HS HL B. unfold kw_match.
  destruct (keywords_at_join ws seps None rest HW HS HL B I) as [p E]. rewrite E. reflexivity.
Qed.
