(** Finite checks that relate the keyword table regenerated from parser.py
    (coq/gen/Keywords.v) to the lexical specification and to the scanner
    model.  Each lemma is a [vm_compute] over the generated table; it is the
    statement about exactly that table (13 multi-word keywords at the time of
    writing) and the listed separators, nothing more. *)
From Asn1V Require Import Base.Prelude Base.Corr Lex.Comments Lex.Lexical Lex.Keyword.
From Asn1Gen Require Import Keywords.

Definition zlists_eqb := list_eqb zlist_eqb.

(** The events of the scanner are those of the model ([event2] and the
    one-character events newline and quotation mark of [step1]). *)
Definition modelled_alternatives : list (list Z) := [[47; 42]; [42; 47]; [45; 45]; [10]; [34]].
Definition scanner_alternatives_ok : bool := zlists_eqb scanner_alternatives modelled_alternatives.

(** Every multi-word keyword is built from one keyword terminal per word. *)
Definition entry_is_words (e : list (list Z) * kwform) : bool :=
  match snd e with
  | KwWords ws => zlists_eqb ws (fst e)
  | KwLiteral _ => false
  end.
Definition keywords_are_word_sequences : bool := forallb entry_is_words multi_word_keywords.

(** Every word of every multi-word keyword is a reserved word of X.680 12.38
    (or one of the listed legacy words), i.e. a lexical item of its own. *)
Definition known_words : list (list Z) := map codes (reserved_words ++ legacy_words).
Definition word_known (w : list Z) : bool := existsb (zlist_eqb w) known_words.
Definition keyword_words_reserved : bool :=
  forallb (fun e => forallb word_known (fst e)) multi_word_keywords.

(** Decidable [word_ok]. *)
Definition word_okb (w : list Z) : bool :=
  match w with [] => false | _ => forallb (fun c => ident_char c && negb (pp_white c)) w end.
Definition keyword_words_ok : bool :=
  forallb (fun e => forallb word_okb (fst e)) multi_word_keywords.

(** Separators between the words of a keyword that X.680 permits: white
    space and all three kinds of comment. *)
Definition separators : list (list Z) :=
  [ [32]; [32; 32]; [10]; [9]; [13; 10]; [32; 10; 9; 32];
    [45; 45; 120; 10];                       (* --x newline *)
    [45; 45; 32; 120; 32; 45; 45];           (* -- x -- *)
    [47; 42; 120; 42; 47];                   (* /*x*/ *)
    [32; 47; 42; 32; 10; 47; 42; 45; 45; 42; 47; 10; 42; 47; 32]   (* nested, with newlines *)
  ].

Definition token_eqb (a b : token) : bool :=
  match a, b with
  | TWord x, TWord y => zlist_eqb x y
  | TLit x, TLit y => zlist_eqb x y
  | _, _ => false
  end.

(** On [w1 sep w2 (sep w3) " ::= x"]: the specification finds the words as
    separate tokens, the scanner succeeds, and the keyword terminal as built
    by parser.py matches the blanked text. *)
Definition layout_case (cf : cfg) (e : list (list Z) * kwform) (sep : list Z) : bool :=
  let ws := fst e in
  let text := join_words ws (repeat sep (length ws)) ++ [32; 58; 58; 61; 32; 120] in
  match spec_tokens text with
  | Some toks =>
    list_eqb token_eqb toks (map TWord ws ++ [TWord [58; 58; 61]; TWord [120]]) &&
    match ignore_comments_cfg cf text with
    | Blanked t => kw_match (snd e) t
    | _ => false
    end
  | None => false
  end.
Definition keyword_layout_table (cf : cfg) : bool :=
  forallb (fun e => forallb (layout_case cf e) separators) multi_word_keywords.

(** The same table with the literal form of the unrepaired tree: only the
    single space is accepted. *)
Definition literal_of (ws : list (list Z)) : kwform :=
  KwLiteral (join_words ws (repeat [32] (length ws))).
Definition literal_layout_only_single_space : bool :=
  forallb (fun e =>
    forallb (fun sep => Bool.eqb (layout_case cfg_fixed (fst e, literal_of (fst e)) sep)
                                 (is_single_space_sep sep)) separators)
    multi_word_keywords.
