(** The shared universe: ASN.1 types after reference resolution of
    constraints (bounds are numbers), with a name environment for type
    references and recursion, and Python-shaped values.

    A [ty] is what the harness generator knows about a type: it is produced
    together with the ASN.1 text the library compiles, so a model codec driven
    by [ty] is independent of the library's parser and compiler. *)
From Asn1V Require Import Base.Prelude.

(** SIZE constraint: none, or lo..hi (hi = None is MAX) with extension marker. *)
Inductive size : Type :=
| SzNone
| SzRange (lo : Z) (hi : option Z) (ext : bool).

(** INTEGER value constraint: none, or lo..hi (None = MIN / MAX) with marker. *)
Inductive intc : Type :=
| IcNone
| IcRange (lo hi : option Z) (ext : bool).

Inductive strkind : Type :=
| SkIA5 | SkVisible | SkNumeric | SkPrintable | SkUTF8 | SkBMP
| SkGeneral | SkGraphic | SkTeletex | SkUniversal | SkObjectDescriptor.

Inductive tclass : Type := Univ | Appl | Ctx | Priv.
Record tag : Type := mkTag { t_class : tclass; t_num : Z; t_explicit : bool }.

(** Python-shaped values.  [VNone] is Python None (NULL, and the "absent"
    result for unknown extension alternatives / enumeration items). *)
Inductive value : Type :=
| VBool (b : bool)
| VInt (z : Z)
| VNone
| VEnum (name : string)
| VBits (bytes : list Z) (nbits : Z)
| VBytes (bs : list Z)
| VStr (cps : list Z)            (* code points *)
| VOid (arcs : list Z)
| VSeq (fields : list (string * value))
| VList (vs : list value)
| VChoice (alt : string) (v : value)
| VUnknownChoice.                (* the tuple (None, None) *)

Inductive optionality : Type :=
| Mandatory
| Optional
| Default (v : value).

Definition member_of (T : Type) : Type := (string * T * optionality)%type.

(** An extension addition: a single member ([false], one-element list) or an
    addition group [[ ... ]] ([true]). *)
Definition addition_of (T : Type) : Type := (bool * list (member_of T))%type.

Inductive ty : Type :=
| TBool
| TNull
| TInt (c : intc)
| TEnum (root : list (string * Z)) (ext : option (list (string * Z)))
| TBits (named : option (list (string * Z))) (sz : size)
| TOctets (sz : size)
| TStr (k : strkind) (sz : size) (alpha : option (list Z))
| TOid
| TSeq (isset : bool) (root : list (member_of ty)) (ext : option (list (addition_of ty)))
| TSeqOf (isset : bool) (elem : ty) (sz : size)
| TChoice (root : list (member_of ty)) (ext : option (list (member_of ty)))
| TRef (name : string)
| TTag (tg : tag) (t : ty).

Definition env : Type := list (string * ty).

Fixpoint lookup {A} (n : string) (l : list (string * A)) : option A :=
  match l with
  | [] => None
  | (k, a) :: r => if String.eqb n k then Some a else lookup n r
  end.

Definition m_name {T} (m : member_of T) : string := fst (fst m).
Definition m_ty {T} (m : member_of T) : T := snd (fst m).
Definition m_opt {T} (m : member_of T) : optionality := snd m.

(** Boolean equality on values (Python [==] on the modelled shapes). *)
Fixpoint zlist_eqb (a b : list Z) : bool :=
  match a, b with
  | [], [] => true
  | x :: a', y :: b' => (x =? y) && zlist_eqb a' b'
  | _, _ => false
  end.

Fixpoint value_eqb (a b : value) {struct a} : bool :=
  match a, b with
  | VBool x, VBool y => Bool.eqb x y
  | VInt x, VInt y => x =? y
  | VNone, VNone => true
  | VEnum x, VEnum y => String.eqb x y
  | VBits x n, VBits y m => zlist_eqb x y && (n =? m)
  | VBytes x, VBytes y => zlist_eqb x y
  | VStr x, VStr y => zlist_eqb x y
  | VOid x, VOid y => zlist_eqb x y
  | VSeq x, VSeq y =>
    (fix go (x y : list (string * value)) : bool :=
       match x, y with
       | [], [] => true
       | (n, v) :: x', (m, w) :: y' => String.eqb n m && value_eqb v w && go x' y'
       | _, _ => false
       end) x y
  | VList x, VList y =>
    (fix go (x y : list value) : bool :=
       match x, y with
       | [], [] => true
       | v :: x', w :: y' => value_eqb v w && go x' y'
       | _, _ => false
       end) x y
  | VChoice n v, VChoice m w => String.eqb n m && value_eqb v w
  | VUnknownChoice, VUnknownChoice => true
  | _, _ => false
  end.
