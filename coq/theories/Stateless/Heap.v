(** C18 — abstract heap model of "a call on a compiled specification".

    Locations are either SHARED (attributes of compiled type objects, module
    globals, class attributes, and the values the caller passed in: everything
    that outlives one top-level call or is visible to another thread) or LOCAL to
    one top-level call (the Encoder / Decoder / bytearray / dicts / exception the
    call allocates, its arguments, its result slot).

    An atomic step is one heap write (finer than a CPython bytecode, so any
    GIL-permitted interleaving of threads is an interleaving of steps).  A step
    belongs to a call and to a method; it reads finitely many locations, all of
    them shared or local to ITS call, and writes one location: a local one of ITS
    call, or a shared one -- the latter only by virtue of an entry of the
    write-set table of its method that is classified as a shared write
    ([wf_stmt]).  That a Python statement of /repo executes as such steps is the
    link provided by translator/writesets.py (trusted, fail-closed) and tested
    by the fingerprint runs of harness/c18.py. *)
From Asn1V Require Import Base.Prelude.
From Asn1Gen Require Import WriteSets.

(** Which table entries denote a write to state that outlives the call. *)
Definition shared_recv (r : receiver) : bool :=
  match r with
  | CallLocalObject _ => false
  | SelfAttr _ | SharedAlias _ | Global _ | InputValue _ | UnknownRecv _ => true
  end.
Definition shared_write (e : wentry) : bool := shared_recv (w_recv e).
Definition no_shared_writes_b (tbl : list wentry) : bool := forallb (fun e => negb (shared_write e)) tbl.
Definition no_shared_writes (tbl : list wentry) : Prop := no_shared_writes_b tbl = true.

Definition recv_name (r : receiver) : string :=
  match r with
  | SelfAttr a | SharedAlias a | Global a | InputValue a | CallLocalObject a | UnknownRecv a => a
  end.

(** The allocation evidence for the mechanism the property names. *)
Definition root_allocations_ok_b (l : list (string * string * string * string * bool * Z)) : bool :=
  forallb (fun r => match r with (_, _, _, _, found, _) => found end) l.

Inductive loc : Type :=
| Sh (obj : Z) (attr : string)     (* attribute / item of a shared object *)
| Lo (call : Z) (slot : Z).        (* slot of the heap private to one top-level call *)

Definition loc_eqb (a b : loc) : bool :=
  match a, b with
  | Sh o1 a1, Sh o2 a2 => (o1 =? o2) && String.eqb a1 a2
  | Lo c1 k1, Lo c2 k2 => (c1 =? c2) && (k1 =? k2)
  | _, _ => false
  end.

Definition visible (c : Z) (l : loc) : bool :=
  match l with Sh _ _ => true | Lo c' _ => c' =? c end.

Inductive target : Type :=
| TLocal (slot : Z)
| TShared (e : wentry) (obj : Z).

Definition method_id : Type := (string * string * string)%type.
Definition entry_method (e : wentry) : method_id := (w_module e, w_class e, w_method e).

Section Heap.
  Variable val : Type.

  Definition heap : Type := loc -> option val.

  Definition upd (h : heap) (l : loc) (v : option val) : heap :=
    fun l' => if loc_eqb l l' then v else h l'.

  (** What call [c] can see of a heap. *)
  Definition view (c : Z) (h : heap) : heap := fun l => if visible c l then h l else None.

  Record stmt : Type := Stmt {
    s_call : Z;
    s_method : method_id;
    s_reads : list loc;
    s_target : target;
    s_rhs : list (option val) -> option val      (* None = delete *)
  }.

  Definition target_loc (c : Z) (t : target) : loc :=
    match t with
    | TLocal k => Lo c k
    | TShared e o => Sh o (recv_name (w_recv e))
    end.

  Definition exec (s : stmt) (h : heap) : heap :=
    upd h (target_loc (s_call s) (s_target s)) (s_rhs s (map (view (s_call s) h) (s_reads s))).

  Fixpoint run (ops : list stmt) (h : heap) : heap :=
    match ops with
    | [] => h
    | s :: r => run r (exec s h)
    end.

  (** A statement respects the write-set table [tbl]: it may write a shared
      location only through a table entry of its own method that is classified
      as a shared write. *)
  Definition wf_stmt (tbl : list wentry) (s : stmt) : Prop :=
    match s_target s with
    | TLocal _ => True
    | TShared e _ => In e tbl /\ entry_method e = s_method s /\ shared_write e = true
    end.

  Definition is_local (s : stmt) : Prop := exists k, s_target s = TLocal k.

  (** Result slot of a call, and the statements of one call in program order. *)
  Definition result (c : Z) (h : heap) : option val := h (Lo c 0).
  Definition of_call (c : Z) (ops : list stmt) : list stmt := filter (fun s => s_call s =? c) ops.

  Definition heq (h h' : heap) : Prop := forall l, h l = h' l.
  Definition agree (c : Z) (h h' : heap) : Prop := forall l, visible c l = true -> h l = h' l.
  Definition shared_eq (h h' : heap) : Prop := forall o a, h (Sh o a) = h' (Sh o a).

  (** Interleavings: any merge of per-thread statement lists. *)
  Inductive merge : list (list stmt) -> list stmt -> Prop :=
  | merge_done : forall ts, Forall (fun t => t = []) ts -> merge ts []
  | merge_step : forall pre x t post tr,
      merge (pre ++ t :: post) tr -> merge (pre ++ (x :: t) :: post) (x :: tr).

  (** Threads own their calls: statements of different threads belong to different calls. *)
  Definition calls_disjoint (t t' : list stmt) : Prop :=
    forall x y, In x t -> In y t' -> s_call x <> s_call y.
  Fixpoint disjoint_calls (ts : list (list stmt)) : Prop :=
    match ts with
    | [] => True
    | t :: rest => Forall (calls_disjoint t) rest /\ disjoint_calls rest
    end.
End Heap.

Arguments Stmt {val}.
Arguments s_call {val}.
Arguments s_method {val}.
Arguments s_reads {val}.
Arguments s_target {val}.
Arguments s_rhs {val}.
