(** C18 — non-vacuity of the heap model: a concrete two-thread history that
    satisfies every hypothesis of the interleaving theorem, and a history that
    shows what goes wrong as soon as the table contains one shared write. *)
From Asn1V Require Import Base.Prelude Stateless.Heap Stateless.Proofs.
From Asn1Gen Require Import WriteSets.

Definition zsum (l : list (option Z)) : option Z :=
  Some (fold_right (fun o acc => match o with Some v => v + acc | None => acc end) 0 l).

(** "encode": result := argument (local slot 1) + self.minimum (shared object 7). *)
Definition enc (c : Z) : stmt Z :=
  Stmt c ("codecs.per", "Integer", "encode") [Lo c 1; Sh 7 "minimum"] (TLocal 0) zsum.
(** a scratch write to the call's own Encoder object (local slot 2) *)
Definition scratch (c : Z) : stmt Z :=
  Stmt c ("codecs.per", "Encoder", "append_bit") [Lo c 1] (TLocal 2) zsum.

Definition thread_a : list (stmt Z) := [scratch 1; enc 1].
Definition thread_b : list (stmt Z) := [scratch 2; enc 2; scratch 3; enc 3].
Definition trace : list (stmt Z) := [scratch 2; scratch 1; enc 2; scratch 3; enc 1; enc 3].

Definition h_init : heap Z := fun l =>
  match l with
  | Sh 7 "minimum" => Some 100
  | Lo 1 1 => Some 1 | Lo 2 1 => Some 2 | Lo 3 1 => Some 3
  | _ => None
  end.

Lemma trace_is_interleaving : merge Z [thread_a; thread_b] trace.
Proof.
  unfold trace, thread_a, thread_b.
  apply (merge_step Z [[scratch 1; enc 1]] (scratch 2) [enc 2; scratch 3; enc 3] []).
  apply (merge_step Z [] (scratch 1) [enc 1] [[enc 2; scratch 3; enc 3]]).
  apply (merge_step Z [[enc 1]] (enc 2) [scratch 3; enc 3] []).
  apply (merge_step Z [[enc 1]] (scratch 3) [enc 3] []).
  apply (merge_step Z [] (enc 1) [] [[enc 3]]).
  apply (merge_step Z [[]] (enc 3) [] []).
  apply merge_done. repeat constructor.
Qed.

Lemma threads_disjoint : disjoint_calls Z [thread_a; thread_b].
Proof.
  simpl. repeat split; repeat constructor.
  intros x y Hx Hy. simpl in Hx, Hy.
  repeat (destruct Hx as [Hx|Hx]; [subst x|]); try contradiction;
    repeat (destruct Hy as [Hy|Hy]; [subst y|]); try contradiction; simpl; lia.
Qed.

Lemma threads_wf : Forall (Forall (wf_stmt Z write_table)) [thread_a; thread_b].
Proof. repeat constructor. Qed.

Lemma trace_results :
  result Z 1 (run Z trace h_init) = Some 101 /\
  result Z 2 (run Z trace h_init) = Some 102 /\
  result Z 3 (run Z trace h_init) = Some 103 /\
  result Z 3 (run Z (of_call Z 3 (concat [thread_a; thread_b])) h_init) = Some 103.
Proof. repeat split; vm_compute; reflexivity. Qed.

(** One shared write in the table is enough to lose the property: a history
    that respects such a table and in which a call's result differs from the
    result of the same call made alone. *)
Definition leak_entry : wentry :=
  W "codecs.per" "Integer" "encode" (AttrStore "_memo") (SelfAttr "_memo") 1036.
Definition leak_write : stmt Z :=
  Stmt 1 ("codecs.per", "Integer", "encode") [Lo 1 1] (TShared leak_entry 7) zsum.
Definition leak_read : stmt Z :=
  Stmt 2 ("codecs.per", "Integer", "encode") [Lo 2 1; Sh 7 "_memo"] (TLocal 0) zsum.

Lemma leak_breaks_independence :
  Forall (wf_stmt Z [leak_entry]) [leak_write; leak_read] /\
  result Z 2 (run Z [leak_write; leak_read] h_init) = Some 3 /\
  result Z 2 (run Z (of_call Z 2 [leak_write; leak_read]) h_init) = Some 2.
Proof.
  split; [|split; vm_compute; reflexivity].
  constructor; [|constructor; [exact I | constructor]].
  unfold wf_stmt. simpl. split; [left; reflexivity | split; reflexivity].
Qed.
