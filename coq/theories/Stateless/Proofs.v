(** C18 — proofs about the heap model of Stateless/Heap.v. *)
From Asn1V Require Import Base.Prelude Stateless.Heap.
From Asn1Gen Require Import WriteSets.

(** The finite statement about the regenerated table (a proof of exactly the
    table currently in gen/WriteSets.v, by computation). *)
Lemma table_no_shared_writes : no_shared_writes write_table.
Proof. vm_compute. reflexivity. Qed.

Lemma table_root_allocations : root_allocations_ok_b root_allocations = true.
Proof. vm_compute. reflexivity. Qed.

Lemma loc_eqb_eq a b : loc_eqb a b = true <-> a = b.
Proof.
  destruct a, b; simpl; split; intros H; try discriminate.
  - apply andb_true_iff in H. destruct H as [H1 H2].
    apply Z.eqb_eq in H1. apply String.eqb_eq in H2. congruence.
  - inversion H; subst. rewrite Z.eqb_refl, String.eqb_refl. reflexivity.
  - apply andb_true_iff in H. destruct H as [H1 H2].
    apply Z.eqb_eq in H1. apply Z.eqb_eq in H2. congruence.
  - inversion H; subst. rewrite !Z.eqb_refl. reflexivity.
Qed.

Lemma loc_eqb_neq a b : loc_eqb a b = false <-> a <> b.
Proof.
  split; intros H.
  - intros E. apply loc_eqb_eq in E. congruence.
  - destruct (loc_eqb a b) eqn:E; [|reflexivity]. apply loc_eqb_eq in E. contradiction.
Qed.

Section Proofs.
  Variable val : Type.
  Notation heap := (heap val).
  Notation stmt := (stmt val).

  Lemma no_shared_local tbl (s : stmt) :
    no_shared_writes tbl -> wf_stmt val tbl s -> is_local val s.
  Proof.
    unfold no_shared_writes, no_shared_writes_b, wf_stmt, is_local. intros H W.
    destruct (s_target s) as [k|e o]; [eauto|].
    destruct W as (Hin & _ & Hs).
    rewrite forallb_forall in H. apply H in Hin. rewrite Hs in Hin. discriminate.
  Qed.

  (** A local statement leaves every shared location alone. *)
  Lemma exec_local_shared (s : stmt) (h : heap) o a :
    is_local val s -> exec val s h (Sh o a) = h (Sh o a).
  Proof.
    intros [k Hk]. unfold exec, upd. rewrite Hk. simpl. reflexivity.
  Qed.

  (** [stateless]: over arbitrary operation lists. *)
  Theorem stateless tbl :
    no_shared_writes tbl ->
    forall (ops : list stmt) (h0 : heap), Forall (wf_stmt val tbl) ops ->
      shared_eq val (run val ops h0) h0.
  Proof.
    intros HT ops. induction ops as [|s r IH]; intros h0 HW o a; simpl.
    - reflexivity.
    - inversion HW; subst. rewrite IH by assumption.
      apply exec_local_shared. eapply no_shared_local; eauto.
  Qed.

  Lemma view_agree c (h h' : heap) : agree val c h h' -> forall l, view val c h l = view val c h' l.
  Proof.
    intros A l. unfold view. destruct (visible c l) eqn:V; [apply A; assumption | reflexivity].
  Qed.

  Lemma reads_agree c (h h' : heap) rs :
    agree val c h h' -> map (view val c h) rs = map (view val c h') rs.
  Proof. intros A. apply map_ext. apply view_agree. assumption. Qed.

  (** A statement of call [c] maps heaps that agree on what [c] sees to heaps
      that agree on what [c] sees ... *)
  Lemma exec_own_agree c (s : stmt) (h h' : heap) :
    s_call s = c -> agree val c h h' -> agree val c (exec val s h) (exec val s h').
  Proof.
    intros Hc A l V. unfold exec, upd. subst c.
    rewrite (reads_agree _ _ _ (s_reads s) A).
    destruct (loc_eqb _ l); [reflexivity | apply A; assumption].
  Qed.

  (** ... and a local statement of another call is invisible to [c]. *)
  Lemma exec_other_agree c (s : stmt) (h : heap) :
    s_call s <> c -> is_local val s -> agree val c (exec val s h) h.
  Proof.
    intros Hc [k Hk] l V. unfold exec, upd. rewrite Hk. simpl.
    destruct l as [o a|c' k']; simpl; [reflexivity|].
    simpl in V. apply Z.eqb_eq in V. subst c'.
    destruct (s_call s =? c) eqn:E; [apply Z.eqb_eq in E; contradiction|]. reflexivity.
  Qed.

  Lemma agree_trans c (h1 h2 h3 : heap) : agree val c h1 h2 -> agree val c h2 h3 -> agree val c h1 h3.
  Proof. intros A B l V. rewrite A by assumption. apply B. assumption. Qed.

  (** Projection: what call [c] sees after ANY list of table-respecting
      statements is what it sees after its own statements alone, started from
      any heap that agrees with the initial one on what [c] sees. *)
  Theorem run_projection tbl :
    no_shared_writes tbl ->
    forall (ops : list stmt) c (h h' : heap), Forall (wf_stmt val tbl) ops ->
      agree val c h h' -> agree val c (run val ops h) (run val (of_call val c ops) h').
  Proof.
    intros HT ops c. induction ops as [|s r IH]; intros h h' HW A; simpl.
    - assumption.
    - inversion HW; subst.
      destruct (s_call s =? c) eqn:E.
      + simpl. apply IH; [assumption|]. apply exec_own_agree; [apply Z.eqb_eq; assumption | assumption].
      + apply IH; [assumption|].
        eapply agree_trans; [|exact A].
        apply exec_other_agree; [intros X; apply Z.eqb_eq in X; congruence|].
        eapply no_shared_local; eauto.
  Qed.

  (** [result_independent]: the result of a call in any history equals the
      result of the same call made alone on a "fresh copy": any heap with the
      same shared part and the same arguments (local slots of [c]). *)
  Theorem result_independent tbl :
    no_shared_writes tbl ->
    forall (ops : list stmt) c (h0 fresh : heap), Forall (wf_stmt val tbl) ops ->
      agree val c h0 fresh ->
      result val c (run val ops h0) = result val c (run val (of_call val c ops) fresh).
  Proof.
    intros HT ops c h0 fresh HW A. unfold result.
    apply (run_projection tbl HT ops c h0 fresh HW A). simpl. apply Z.eqb_refl.
  Qed.

  (** *** Commutation and interleavings *)

  Lemma heq_refl (h : heap) : heq val h h.
  Proof. intros l. reflexivity. Qed.

  Lemma heq_trans (a b c : heap) : heq val a b -> heq val b c -> heq val a c.
  Proof. intros X Y l. rewrite X. apply Y. Qed.

  Lemma exec_heq (s : stmt) (h h' : heap) : heq val h h' -> heq val (exec val s h) (exec val s h').
  Proof.
    intros E l. unfold exec, upd.
    replace (map (view val (s_call s) h) (s_reads s)) with (map (view val (s_call s) h') (s_reads s)).
    - destruct (loc_eqb _ l); [reflexivity | apply E].
    - apply map_ext. intros l'. unfold view. rewrite E. reflexivity.
  Qed.

  Lemma run_heq ops : forall (h h' : heap), heq val h h' -> heq val (run val ops h) (run val ops h').
  Proof.
    induction ops as [|s r IH]; intros h h' E; simpl; [assumption|].
    apply IH. apply exec_heq. assumption.
  Qed.

  (** Two local statements of different calls commute: neither reads nor
      writes what the other writes. *)
  Lemma exec_commute (x y : stmt) (h : heap) :
    is_local val x -> is_local val y -> s_call x <> s_call y ->
    heq val (exec val x (exec val y h)) (exec val y (exec val x h)).
  Proof.
    intros [kx Hx] [ky Hy] Hne l.
    assert (Ax : agree val (s_call x) (exec val y h) h).
    { apply exec_other_agree; [congruence | exists ky; assumption]. }
    assert (Ay : agree val (s_call y) (exec val x h) h).
    { apply exec_other_agree; [congruence | exists kx; assumption]. }
    assert (Ex : forall g : heap, exec val x g =
              upd val g (Lo (s_call x) kx) (s_rhs x (map (view val (s_call x) g) (s_reads x)))).
    { intros g. unfold exec. rewrite Hx. reflexivity. }
    assert (Ey : forall g : heap, exec val y g =
              upd val g (Lo (s_call y) ky) (s_rhs y (map (view val (s_call y) g) (s_reads y)))).
    { intros g. unfold exec. rewrite Hy. reflexivity. }
    rewrite (Ex (exec val y h)), (Ey (exec val x h)).
    rewrite (reads_agree _ _ _ (s_reads x) Ax), (reads_agree _ _ _ (s_reads y) Ay).
    unfold upd.
    destruct (loc_eqb (Lo (s_call x) kx) l) eqn:E1; destruct (loc_eqb (Lo (s_call y) ky) l) eqn:E2.
    - apply loc_eqb_eq in E1. apply loc_eqb_eq in E2. subst l. inversion E2. congruence.
    - rewrite Ex. unfold upd. rewrite E1. reflexivity.
    - rewrite Ey. unfold upd. rewrite E2. reflexivity.
    - rewrite Ex, Ey. unfold upd. rewrite E1, E2. reflexivity.
  Qed.

  (** A statement can be moved in front of a block of statements of other calls. *)
  Lemma commute_front (x : stmt) l : forall rest (h : heap),
    is_local val x -> Forall (fun y => is_local val y /\ s_call y <> s_call x) l ->
    heq val (run val (l ++ x :: rest) h) (run val (x :: l ++ rest) h).
  Proof.
    induction l as [|y l IH]; intros rest h Lx F; simpl.
    - apply heq_refl.
    - inversion F as [|? ? [Ly Hne] F']; subst.
      eapply heq_trans; [apply IH; assumption|]. simpl.
      apply run_heq. apply exec_commute; [assumption | assumption | congruence].
  Qed.

  Lemma dc_split (pre : list (list stmt)) : forall a a' post,
    (forall x, In x a' -> In x a) ->
    disjoint_calls val (pre ++ a :: post) ->
    Forall (fun p => calls_disjoint val p a) pre /\ disjoint_calls val (pre ++ a' :: post).
  Proof.
    induction pre as [|p pre IH]; intros a a' post Hsub D; simpl in *.
    - split; [constructor|]. destruct D as [D1 D2]. split; [|assumption].
      eapply Forall_impl; [|exact D1]. intros t Ht x y Hx Hy. apply Ht; auto.
    - destruct D as [D1 D2]. destruct (IH a a' post Hsub D2) as [F D'].
      split.
      + constructor; [|assumption].
        rewrite Forall_forall in D1. apply D1. apply in_or_app. right. left. reflexivity.
      + split; [|assumption].
        rewrite Forall_forall in D1 |- *. intros t Ht.
        apply in_app_or in Ht. destruct Ht as [Ht|[Ht|Ht]].
        * apply D1. apply in_or_app. left. assumption.
        * subst t. intros x y Hx Hy. apply (D1 a); [apply in_or_app; right; left; reflexivity | assumption | auto].
        * apply D1. apply in_or_app. right. right. assumption.
  Qed.

  Lemma concat_nil (ts : list (list stmt)) : Forall (fun t => t = []) ts -> concat ts = [].
  Proof. induction 1; simpl; [reflexivity|]. subst. assumption. Qed.

  (** Any interleaving of threads whose statements are local to their own
      calls is heap-equivalent to running the threads one after the other. *)
  Theorem interleaving_sequential ts tr :
    merge val ts tr ->
    disjoint_calls val ts ->
    Forall (Forall (is_local val)) ts ->
    forall h : heap, heq val (run val tr h) (run val (concat ts) h).
  Proof.
    induction 1 as [ts Hn | pre x t post tr M IH]; intros D L h.
    - rewrite concat_nil by assumption. apply heq_refl.
    - destruct (dc_split pre (x :: t) t post (fun y Hy => or_intror Hy) D) as [Fpre D'].
      assert (L' : Forall (Forall (is_local val)) (pre ++ t :: post)).
      { rewrite Forall_forall in L |- *. intros u Hu. apply in_app_or in Hu. destruct Hu as [Hu|[Hu|Hu]].
        - apply L. apply in_or_app. left. assumption.
        - subst u. assert (Lx : Forall (is_local val) (x :: t)) by (apply L; apply in_or_app; right; left; reflexivity).
          inversion Lx. assumption.
        - apply L. apply in_or_app. right. right. assumption. }
      assert (Lx : is_local val x).
      { assert (Lxt : Forall (is_local val) (x :: t)) by (rewrite Forall_forall in L; apply L; apply in_or_app; right; left; reflexivity).
        inversion Lxt. assumption. }
      simpl. eapply heq_trans; [apply IH; assumption|].
      rewrite !concat_app. cbn [concat]. rewrite <- app_comm_cons.
      intros l. symmetry.
      change (run val (concat pre ++ t ++ concat post) (exec val x h))
        with (run val (x :: concat pre ++ t ++ concat post) h).
      apply commute_front; [assumption|].
      rewrite Forall_forall. intros y Hy. apply in_concat in Hy. destruct Hy as (p & Hp & Hyp).
      split.
      + rewrite Forall_forall in L. assert (Lp : Forall (is_local val) p) by (apply L; apply in_or_app; left; assumption).
        rewrite Forall_forall in Lp. apply Lp. assumption.
      + rewrite Forall_forall in Fpre. apply (Fpre p Hp y x Hyp). left. reflexivity.
  Qed.

  Lemma Forall_concat (P : stmt -> Prop) (ts : list (list stmt)) : Forall (Forall P) ts -> Forall P (concat ts).
  Proof.
    induction 1; simpl; [constructor|]. apply Forall_app. split; assumption.
  Qed.

  (** [interleaving_independent]: under any interleaving of any number of
      threads, nothing shared changes and every call returns what the same
      call returns when made alone on a fresh copy. *)
  Theorem interleaving_independent tbl :
    no_shared_writes tbl ->
    forall ts tr (h0 : heap),
      merge val ts tr -> disjoint_calls val ts -> Forall (Forall (wf_stmt val tbl)) ts ->
      shared_eq val (run val tr h0) h0 /\
      forall c (fresh : heap), agree val c h0 fresh ->
        result val c (run val tr h0) = result val c (run val (of_call val c (concat ts)) fresh).
  Proof.
    intros HT ts tr h0 M D W.
    assert (L : Forall (Forall (is_local val)) ts).
    { eapply Forall_impl; [|exact W]. intros t Ht. eapply Forall_impl; [|exact Ht].
      intros s Hs. eapply no_shared_local; eauto. }
    pose proof (interleaving_sequential ts tr M D L h0) as E.
    split.
    - intros o a. rewrite E. apply (stateless tbl HT (concat ts) h0). apply Forall_concat. assumption.
    - intros c fresh A. unfold result. rewrite E.
      apply (result_independent tbl HT (concat ts) c h0 fresh); [apply Forall_concat; assumption | assumption].
  Qed.
End Proofs.
