(** C17 — the model instantiated with the key construction regenerated from
    /repo (coq/gen/CacheKey.v), and an executable instance for the
    correspondence run of harness/c17.py:

    - [any_defined_by_choices] and [encoding] are represented by the bytes of
      their Python repr (so [ser_a] = [ser_e] = identity);
    - the uncached compile is a finite table from (file contents, options) to
      a number: n >= 0 names the Specification the real uncached compile
      returned for that request (the harness keeps its behavioural
      fingerprint), n < 0 means the real uncached compile raised.
    No proofs in this file. *)
From Asn1V Require Import Base.Prelude Cache.Key Cache.Model.
From Asn1Gen Require CacheKey.

(** The key of the current source, for any representation of the two
    pass-through options. *)
Definition repo_key {A E} (ser_a : A -> bytes) (ser_e : E -> bytes) :
  list bytes -> opts A E -> result bytes :=
  key_of ser_a ser_e CacheKey.components CacheKey.frame.

Definition sopts := opts bytes bytes.
Definition sym_key : list bytes -> sopts -> result bytes := repo_key (fun x => x) (fun x => x).

Definition sopts_eqb (a b : sopts) : bool :=
  bytes_eqb (o_codec a) (o_codec b) && Bool.eqb (o_numeric_enums a) (o_numeric_enums b) &&
  bytes_eqb (o_adbc a) (o_adbc b) && bytes_eqb (o_encoding a) (o_encoding b).

Fixpoint files_eqb (a b : list bytes) : bool :=
  match a, b with
  | [], [] => true
  | x :: a', y :: b' => bytes_eqb x y && files_eqb a' b'
  | _, _ => false
  end.

Definition table := list ((list bytes * sopts) * Z).

Fixpoint table_find (t : table) (f : list bytes) (o : sopts) : option Z :=
  match t with
  | [] => None
  | ((f', o'), z) :: r => if files_eqb f f' && sopts_eqb o o' then Some z else table_find r f o
  end.

Definition table_compile (t : table) (f : list bytes) (o : sopts) : result Z :=
  match table_find t f o with
  | Some z => if 0 <=? z then Ok z else Err (EForeign "compile")
  | None => Err EUnmodelled
  end.

(** What the harness compares: (hit, n) with n the Specification number, or a
    negative code for the class of the raised exception. *)
Definition outcome_code (out : @outcome Z) : Z * Z :=
  match out with
  | NoRet => (-1, 0)
  | Ret hit r =>
    (if hit then 1 else 0,
     match r with
     | Ok z => z
     | Err (EForeign k) =>
       if String.eqb k "compile" then -1
       else if String.eqb k "UnicodeEncodeError" then -2
       else if String.eqb k "struct.error" then -2
       else if String.eqb k "FileNotFoundError" then -3
       else if String.eqb k "UnpicklingError" then -4
       else if String.eqb k "DatabaseError" then -5
       else -8
     | Err _ => -9
     end)
  end.

Definition run_codes (t : table) (h : list (@op bytes bytes Z)) : list (Z * Z) :=
  map (fun e => outcome_code (snd e)) (snd (run sym_key (table_compile t) (empty_state []) h)).

(** The key bytes themselves (compared with the key the library hands to
    diskcache); an exception is reported as [-1] / [-2]. *)
Definition key_code (c : list bytes * sopts) : list Z :=
  match sym_key (fst c) (snd c) with
  | Ok k => k
  | Err (EForeign _) => [-1]
  | Err _ => [-2]
  end.
