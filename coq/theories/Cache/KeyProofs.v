(** C17 — facts about the cache key constructions of Cache/Key.v.

    1. Length-prefixed concatenation ([frame_all], FrameLen8) is injective on
       ALL lists of byte strings ([frame_all_inj]).
    2. Any component list that covers every compile argument, joined with
       FrameLen8, gives an injective key ([key_of_injective]); in particular the
       repaired key ([key_fixed_injective]).
    3. The key as coded upstream ([key_orig]) is not injective, in three
       different ways (options ignored, file boundaries lost, codec name runs
       into the first file), with concrete witnesses. *)
From Asn1V Require Import Base.Prelude Cache.Key.

(** * List lemmas *)

Lemma app_inj_len {T} (a c b d : list T) :
  length a = length c -> a ++ b = c ++ d -> a = c /\ b = d.
Proof.
  revert c. induction a as [|x a IH]; intros [|y c] Hl H; simpl in *; try discriminate.
  - split; [reflexivity | exact H].
  - injection H as -> H. injection Hl as Hl. destruct (IH c Hl H) as [-> ->]. split; reflexivity.
Qed.

(** * Fixed-width big-endian numbers *)

Lemma be_bytes_length w v : length (be_bytes w v) = w.
Proof.
  revert v. induction w as [|w IH]; intros v; simpl; [reflexivity|].
  rewrite app_length, IH. simpl. lia.
Qed.

Lemma be_bytes_inj w : forall a b,
  0 <= a < 256 ^ Z.of_nat w -> 0 <= b < 256 ^ Z.of_nat w ->
  be_bytes w a = be_bytes w b -> a = b.
Proof.
  induction w as [|w IH]; intros a b Ha Hb H.
  - change (256 ^ Z.of_nat 0) with 1 in *. lia.
  - rewrite Nat2Z.inj_succ, Z.pow_succ_r in Ha, Hb by lia.
    simpl in H. apply app_inj_tail in H. destruct H as [H1 H2].
    assert (Hq : a / 256 = b / 256).
    { apply IH; [| | exact H1].
      - split; [apply Z.div_pos; lia | apply Z.div_lt_upper_bound; lia].
      - split; [apply Z.div_pos; lia | apply Z.div_lt_upper_bound; lia]. }
    rewrite (Z.div_mod a 256), (Z.div_mod b 256) by lia. rewrite Hq, H2. reflexivity.
Qed.

(** * Length-prefixed concatenation is injective *)

Lemma frame8_ok p a :
  frame8 p = Ok a ->
  Z.of_nat (length p) < 2 ^ 64 /\ a = be_bytes 8 (Z.of_nat (length p)) ++ p.
Proof.
  unfold frame8. destruct (Z.of_nat (length p) <? 2 ^ 64) eqn:E; intros H; [|discriminate].
  injection H as <-. split; [lia | reflexivity].
Qed.

Lemma frame_all_cons_ok p r k :
  frame_all (p :: r) = Ok k ->
  exists kr, frame_all r = Ok kr /\ Z.of_nat (length p) < 2 ^ 64 /\
             k = be_bytes 8 (Z.of_nat (length p)) ++ p ++ kr.
Proof.
  simpl. destruct (frame8 p) as [a|] eqn:Ea; simpl; [|discriminate].
  destruct (frame_all r) as [kr|] eqn:Er; simpl; [|discriminate].
  intros H. injection H as <-. apply frame8_ok in Ea. destruct Ea as [Hlt ->].
  exists kr. split; [reflexivity|]. split; [exact Hlt|]. rewrite <- app_assoc. reflexivity.
Qed.

(** For all lists of byte strings: equal framed concatenations come from equal
    lists (same number of strings, same boundaries, same contents). *)
Theorem frame_all_inj : forall (l1 l2 : list bytes) (k : bytes),
  frame_all l1 = Ok k -> frame_all l2 = Ok k -> l1 = l2.
Proof.
  induction l1 as [|p l1 IH]; intros [|q l2] k H1 H2.
  - reflexivity.
  - simpl in H1. injection H1 as <-. apply frame_all_cons_ok in H2.
    destruct H2 as (kr & _ & _ & H2). apply (f_equal (@length Z)) in H2.
    rewrite app_length, be_bytes_length in H2. simpl in H2. lia.
  - simpl in H2. injection H2 as <-. apply frame_all_cons_ok in H1.
    destruct H1 as (kr & _ & _ & H1). apply (f_equal (@length Z)) in H1.
    rewrite app_length, be_bytes_length in H1. simpl in H1. lia.
  - apply frame_all_cons_ok in H1. destruct H1 as (k1 & Hr1 & Hp & ->).
    apply frame_all_cons_ok in H2. destruct H2 as (k2 & Hr2 & Hq & H2).
    apply app_inj_len in H2; [| rewrite !be_bytes_length; reflexivity].
    destruct H2 as [Hlen H2].
    change 8%nat with (Z.to_nat 8) in Hlen.
    apply be_bytes_inj in Hlen; [| change (256 ^ Z.of_nat (Z.to_nat 8)) with (2 ^ 64); lia ..].
    apply app_inj_len in H2; [| lia]. destruct H2 as [-> ->].
    f_equal. eapply IH; eassumption.
Qed.

(** * Keys built from a covering component list with FrameLen8 are injective *)

Section KeyInj.
  Context {A E : Type}.
  Variable ser_a : A -> bytes.
  Variable ser_e : E -> bytes.
  Hypothesis ser_a_inj : forall x y, ser_a x = ser_a y -> x = y.
  Hypothesis ser_e_inj : forall x y, ser_e x = ser_e y -> x = y.

  Notation part := (part ser_a ser_e).
  Notation parts := (parts ser_a ser_e).
  Notation key_of := (key_of ser_a ser_e).

  Definition nfiles (comps : list comp) : nat :=
    length (filter (comp_eqb KFiles) comps).
  Definition nsingles (comps : list comp) : nat :=
    length (filter (fun c => negb (comp_eqb KFiles c)) comps).

  Lemma part_length f (o : opts A E) c a :
    part f o c = Ok a -> length a = if comp_eqb KFiles c then length f else 1%nat.
  Proof.
    destruct c; simpl; intros H; try (injection H as <-; reflexivity).
    destruct (ascii_encode (o_codec o)); simpl in H; [injection H as <-; reflexivity | discriminate].
  Qed.

  Lemma parts_cons_ok c r f (o : opts A E) ps :
    parts (c :: r) f o = Ok ps ->
    exists a b, part f o c = Ok a /\ parts r f o = Ok b /\ ps = a ++ b.
  Proof.
    simpl. destruct (part f o c) as [a|]; simpl; [|discriminate].
    destruct (parts r f o) as [b|]; simpl; [|discriminate].
    intros H. injection H as <-. eauto.
  Qed.

  Lemma parts_length comps f (o : opts A E) ps :
    parts comps f o = Ok ps -> length ps = (nsingles comps + nfiles comps * length f)%nat.
  Proof.
    revert ps. induction comps as [|c r IH]; intros ps H.
    - simpl in H. injection H as <-. reflexivity.
    - apply parts_cons_ok in H. destruct H as (a & b & Ha & Hb & ->).
      rewrite app_length, (IH _ Hb), (part_length _ _ _ _ Ha).
      unfold nsingles, nfiles. destruct c; cbn [filter comp_eqb negb length]; lia.
  Qed.

  Lemma parts_pointwise comps f f' (o o' : opts A E) ps :
    length f = length f' ->
    parts comps f o = Ok ps -> parts comps f' o' = Ok ps ->
    forall c, In c comps -> exists a, part f o c = Ok a /\ part f' o' c = Ok a.
  Proof.
    intros Hl. revert ps. induction comps as [|c r IH]; intros ps H H' x Hx; [destruct Hx|].
    apply parts_cons_ok in H. destruct H as (a & b & Ha & Hb & ->).
    apply parts_cons_ok in H'. destruct H' as (a' & b' & Ha' & Hb' & Heq).
    apply app_inj_len in Heq.
    2:{ rewrite (part_length _ _ _ _ Ha), (part_length _ _ _ _ Ha'), Hl. reflexivity. }
    destruct Heq as [<- <-]. destruct Hx as [<-|Hx].
    - exists a. split; assumption.
    - eapply IH; eassumption.
  Qed.

  Lemma covers_in comps c : covers comps = true -> In c comps.
  Proof.
    unfold covers. rewrite forallb_forall. intros H.
    assert (Hc : In c [KCodec; KNumericEnums; KEncoding; KAdbc; KFiles])
      by (destruct c; simpl; tauto).
    apply H in Hc. apply existsb_exists in Hc. destruct Hc as (d & Hd & Hcd).
    destruct c, d; simpl in Hcd; try discriminate; exact Hd.
  Qed.

  Lemma in_nfiles comps : In KFiles comps -> (1 <= nfiles comps)%nat.
  Proof.
    unfold nfiles. induction comps as [|c r IH]; intros Hin; [destruct Hin|].
    destruct Hin as [->|Hin]; [simpl; lia|].
    specialize (IH Hin). destruct c; cbn [filter comp_eqb length]; lia.
  Qed.

  Lemma repr_bool_inj b b' : repr_bool b = repr_bool b' -> b = b'.
  Proof. destruct b, b'; simpl; intros H; try reflexivity; discriminate. Qed.

  Lemma ascii_encode_ok s b : ascii_encode s = Ok b -> b = s.
  Proof. unfold ascii_encode. destruct (forallb _ s); intros H; [injection H as <-; reflexivity | discriminate]. Qed.

  Theorem parts_injective comps f f' (o o' : opts A E) ps :
    covers comps = true ->
    parts comps f o = Ok ps -> parts comps f' o' = Ok ps -> f = f' /\ o = o'.
  Proof.
    intros Hc H H'.
    assert (Hl : length f = length f').
    { pose proof (parts_length _ _ _ _ H) as L. pose proof (parts_length _ _ _ _ H') as L'.
      pose proof (in_nfiles comps (covers_in comps KFiles Hc)) as Hn.
      rewrite L in L'. apply Nat.add_cancel_l in L'. apply Nat.mul_cancel_l in L'; lia. }
    pose proof (parts_pointwise comps f f' o o' ps Hl H H') as P.
    destruct (P KFiles (covers_in _ _ Hc)) as (x1 & F1 & F1'). simpl in F1, F1'.
    destruct (P KCodec (covers_in _ _ Hc)) as (x2 & F2 & F2'). simpl in F2, F2'.
    destruct (P KNumericEnums (covers_in _ _ Hc)) as (x3 & F3 & F3'). simpl in F3, F3'.
    destruct (P KEncoding (covers_in _ _ Hc)) as (x4 & F4 & F4'). simpl in F4, F4'.
    destruct (P KAdbc (covers_in _ _ Hc)) as (x5 & F5 & F5'). simpl in F5, F5'.
    split; [congruence|].
    destruct o as [c n a e], o' as [c' n' a' e']; simpl in *.
    destruct (ascii_encode c) as [bc|] eqn:Ec; simpl in F2; [|discriminate].
    destruct (ascii_encode c') as [bc'|] eqn:Ec'; simpl in F2'; [|discriminate].
    apply ascii_encode_ok in Ec, Ec'. subst bc bc'.
    assert (c = c') by congruence.
    assert (n = n') by (apply repr_bool_inj; congruence).
    assert (e = e') by (apply ser_e_inj; congruence).
    assert (a = a') by (apply ser_a_inj; congruence).
    subst. reflexivity.
  Qed.

  Theorem key_of_injective comps f f' (o o' : opts A E) k :
    covers comps = true ->
    key_of comps FrameLen8 f o = Ok k -> key_of comps FrameLen8 f' o' = Ok k ->
    f = f' /\ o = o'.
  Proof.
    unfold Key.key_of. intros Hc H H'.
    destruct (parts comps f o) as [ps|] eqn:P; simpl in H; [|discriminate].
    destruct (parts comps f' o') as [ps'|] eqn:P'; simpl in H'; [|discriminate].
    pose proof (frame_all_inj _ _ _ H H') as <-.
    eapply parts_injective; eassumption.
  Qed.

  Corollary key_fixed_injective f f' (o o' : opts A E) k :
    key_fixed ser_a ser_e f o = Ok k -> key_fixed ser_a ser_e f' o' = Ok k -> f = f' /\ o = o'.
  Proof. apply key_of_injective. reflexivity. Qed.

  (** * The upstream key is not injective *)

  Lemma key_orig_eq f (o : opts A E) :
    key_orig ser_a ser_e f o = let* c := ascii_encode (o_codec o) in Ok (c ++ concat f).
  Proof.
    unfold key_orig, Key.key_of. simpl. destruct (ascii_encode (o_codec o)); simpl; [|reflexivity].
    rewrite app_nil_r. reflexivity.
  Qed.

  (** (i) numeric_enums, any_defined_by_choices and encoding never reach the key. *)
  Theorem key_orig_ignores_options f (o o' : opts A E) :
    o_codec o = o_codec o' -> key_orig ser_a ser_e f o = key_orig ser_a ser_e f o'.
  Proof. intros H. rewrite !key_orig_eq, H. reflexivity. Qed.

  (** (ii) only the concatenation of the files reaches the key: how the text is
      split into files does not. *)
  Theorem key_orig_ignores_split f f' (o : opts A E) :
    concat f = concat f' -> key_orig ser_a ser_e f o = key_orig ser_a ser_e f' o.
  Proof. intros H. rewrite !key_orig_eq, H. reflexivity. Qed.

  (** (iii) the codec name runs into the first file. *)
  Theorem key_orig_codec_runs_into_file c1 c2 x rest n a e :
    key_orig ser_a ser_e ((c2 ++ x) :: rest) (mkOpts c1 n a e) =
    key_orig ser_a ser_e (x :: rest) (mkOpts (c1 ++ c2) n a e) \/
    ascii_encode (c1 ++ c2) = Err (EForeign "UnicodeEncodeError").
  Proof.
    rewrite !key_orig_eq. simpl. unfold ascii_encode. rewrite forallb_app.
    destruct (forallb _ c1); simpl; [|right; reflexivity].
    destruct (forallb _ c2); simpl; [|right; reflexivity].
    left. rewrite <- !app_assoc. reflexivity.
  Qed.

  (** ... which cannot happen between two of the eight supported codec names:
      none of them is a prefix of another one. *)
  Theorem valid_codecs_prefix_free c1 c2 (x y : bytes) :
    In c1 valid_codecs -> In c2 valid_codecs -> c1 ++ x = c2 ++ y -> c1 = c2.
  Proof.
    intros H1 H2. vm_compute in H1, H2.
    repeat (destruct H1 as [<-|H1]); try (destruct H1);
      repeat (destruct H2 as [<-|H2]); try (destruct H2);
      simpl; intros H; try reflexivity; try discriminate H.
  Qed.

  Definition o_ber (n : bool) (a : A) (e : E) : opts A E := mkOpts (str "ber") n a e.

  (** Concrete witnesses: three pairs of different compile requests with the
      same upstream key. *)
  Theorem key_orig_not_injective_refuted (a : A) (e : E) :
    (exists f o o' k, o <> o' /\
        key_orig ser_a ser_e f o = Ok k /\ key_orig ser_a ser_e f o' = Ok k) /\
    (exists f f' o k, f <> f' /\
        key_orig ser_a ser_e f o = Ok k /\ key_orig ser_a ser_e f' o = Ok k) /\
    (exists f f' o o' k, o_codec o <> o_codec o' /\
        key_orig ser_a ser_e f o = Ok k /\ key_orig ser_a ser_e f' o' = Ok k).
  Proof.
    split; [|split].
    - exists [[97]], (o_ber false a e), (o_ber true a e), (str "ber" ++ [97]).
      split; [intros H; discriminate H | split; reflexivity].
    - exists [[97; 98]; [99]], [[97]; [98; 99]], (o_ber false a e), (str "ber" ++ [97; 98; 99]).
      split; [intros H; discriminate H | split; reflexivity].
    - exists [[101; 114; 88]], [[88]], (mkOpts (str "b") false a e), (o_ber false a e), (str "ber" ++ [88]).
      split; [intros H; discriminate H | split; reflexivity].
  Qed.
End KeyInj.
