(** C17 — proofs about the cache state machine of Cache/Model.v, by induction
    over arbitrary histories, for an arbitrary uncached [compile] and an
    arbitrary [key]:

    - [run_inv]                     the invariant [Inv] holds in every state of every
                                    history without silent alteration (compiles, edits,
                                    atomic crashes, lost/damaged entries, broken db);
    - [cache_transparent]           key sound (in particular: injective) => every call
                                    of every fault-free history returns what the
                                    uncached call returns;
    - [unsound_key_not_transparent] the converse: two requests with one key and
                                    different compile results give a two-call history
                                    whose second call returns the wrong Specification;
    - [crash_preserves_inv]         a writer killed before or after the commit;
    - [cache_fault_safe]            detected damage: error or the right Specification;
    - [silent_alteration_refuted]   stored bytes that change and still unpickle: a wrong
                                    Specification is returned (no integrity check). *)
From Asn1V Require Import Base.Prelude Cache.Key Cache.Model.

Lemma bytes_eqb_eq a b : bytes_eqb a b = true <-> a = b.
Proof.
  revert b. induction a as [|x a IH]; intros [|y b]; simpl; split; intros H;
    try reflexivity; try discriminate.
  - apply andb_true_iff in H. destruct H as [H1 H2]. apply IH in H2. f_equal; [lia | exact H2].
  - injection H as -> ->. apply andb_true_iff. split; [lia | apply IH; reflexivity].
Qed.

Lemma bytes_eqb_refl a : bytes_eqb a a = true.
Proof. apply bytes_eqb_eq. reflexivity. Qed.

Lemma bytes_eqb_neq a b : a <> b -> bytes_eqb a b = false.
Proof. intros H. destruct (bytes_eqb a b) eqn:Eq; [apply bytes_eqb_eq in Eq; contradiction | reflexivity]. Qed.

Section MapLemmas.
  Context {V : Type}.
  Implicit Types m : list (bytes * V).

  Lemma lookup_remove_eq k m : lookup k (remove k m) = None.
  Proof.
    induction m as [|[k' v] m IH]; simpl; [reflexivity|].
    destruct (bytes_eqb k k') eqn:Eq; [exact IH | simpl; rewrite Eq; exact IH].
  Qed.

  Lemma lookup_remove_ne k k' m : k <> k' -> lookup k (remove k' m) = lookup k m.
  Proof.
    intros Hne. induction m as [|[k2 v] m IH]; simpl; [reflexivity|].
    destruct (bytes_eqb k' k2) eqn:E2.
    - apply bytes_eqb_eq in E2. subst k2. rewrite (bytes_eqb_neq k k') by exact Hne. exact IH.
    - simpl. rewrite IH. reflexivity.
  Qed.

  Lemma lookup_insert_eq k v m : lookup k (insert k v m) = Some v.
  Proof. unfold insert. simpl. rewrite bytes_eqb_refl. reflexivity. Qed.

  Lemma lookup_insert_ne k k' v m : k <> k' -> lookup k (insert k' v m) = lookup k m.
  Proof.
    intros Hne. unfold insert. simpl. rewrite (bytes_eqb_neq k k') by exact Hne.
    apply lookup_remove_ne. exact Hne.
  Qed.

  Lemma bytes_eq_dec (a b : bytes) : {a = b} + {a <> b}.
  Proof.
    destruct (bytes_eqb a b) eqn:Eq; [left; apply bytes_eqb_eq; exact Eq|].
    right. intros ->. rewrite bytes_eqb_refl in Eq. discriminate.
  Qed.
End MapLemmas.

Section Proofs.
  Context {A E spec : Type}.
  Variable key : list bytes -> opts A E -> result bytes.
  Variable compile : list bytes -> opts A E -> result spec.

  Notation state := (@state spec).
  Notation op := (@op A E spec).
  Notation outcome := (@outcome spec).
  Notation step := (step key compile).
  Notation run := (run key compile).
  Notation compile_cached := (compile_cached key compile).
  Notation Inv := (Inv key compile).
  Notation key_sound := (key_sound key compile).
  Notation key_injective := (key_injective key).
  Notation transparent_at := (transparent_at key compile).
  Notation safe_at := (safe_at compile).
  Notation detected := (@detected A E spec).
  Notation fault_free := (@fault_free A E spec).

  Lemma injective_sound : key_injective -> key_sound.
  Proof.
    intros Hi f o f' o' k H H'. destruct (Hi _ _ _ _ _ H H') as [-> ->]. reflexivity.
  Qed.

  (** * Generic trace induction *)

  Lemma run_cons s x r :
    run s (x :: r) = (fst (run (fst (step s x)) r), (s, x, snd (step s x)) :: snd (run (fst (step s x)) r)).
  Proof. simpl. destruct (step s x) as [s' out]. simpl. destruct (run s' r). reflexivity. Qed.

  Lemma trace_inv (P : state -> Prop) (okop : op -> bool) :
    (forall s x, P s -> okop x = true -> P (fst (step s x))) ->
    forall h s0, P s0 -> forallb okop h = true ->
    P (fst (run s0 h)) /\
    forall s x out, In (s, x, out) (snd (run s0 h)) -> P s /\ okop x = true /\ out = snd (step s x).
  Proof.
    intros Hstep. induction h as [|x r IH]; intros s0 H0 Hok.
    - simpl. split; [exact H0 | intros ? ? ? []].
    - simpl in Hok. apply andb_true_iff in Hok. destruct Hok as [Hx Hr].
      rewrite run_cons. simpl.
      destruct (IH (fst (step s0 x)) (Hstep _ _ H0 Hx) Hr) as [IH1 IH2].
      split; [exact IH1|]. intros s y out [Heq|Hin].
      + injection Heq as <- <- <-. auto.
      + apply IH2. exact Hin.
  Qed.

  (** * The invariant *)

  Lemma inv_empty fs : Inv (empty_state fs).
  Proof. intros k c H. discriminate H. Qed.

  Lemma compile_cached_inv s names o :
    key_sound -> Inv s -> Inv (fst (compile_cached s names o)).
  Proof.
    intros Hs Hinv. unfold Model.compile_cached.
    destruct (read_all (st_fs s) names) as [cs|]; [|exact Hinv].
    destruct (key cs o) as [k|] eqn:Ek; [|exact Hinv].
    destruct (st_db_broken s); [exact Hinv|].
    destruct (lookup k (st_cache s)) as [[v|]|] eqn:El; try exact Hinv.
    destruct (compile cs o) as [v|] eqn:Ec; [|exact Hinv].
    intros k' c Hl f o' Hk. cbn [fst st_cache] in Hl.
    destruct (bytes_eq_dec k' k) as [->|Hne].
    - rewrite lookup_insert_eq in Hl. injection Hl as <-.
      rewrite (Hs _ _ _ _ _ Hk Ek). exact Ec.
    - rewrite lookup_insert_ne in Hl by exact Hne. eapply Hinv; eassumption.
  Qed.

  Lemma corrupt_inv s k c :
    (forall v, c <> CAlter v) -> Inv s ->
    Inv (mkState (st_fs s) (corrupt k c (st_cache s)) (st_db_broken s)).
  Proof.
    intros Hc Hinv k' v Hl f o Hk. cbn [st_cache] in Hl. unfold corrupt in Hl.
    destruct (lookup k (st_cache s)) eqn:El; [|eapply Hinv; eassumption].
    destruct c as [| |w]; [| |exfalso; eapply Hc; reflexivity].
    - destruct (bytes_eq_dec k' k) as [->|Hne].
      + rewrite lookup_remove_eq in Hl. discriminate.
      + rewrite lookup_remove_ne in Hl by exact Hne. eapply Hinv; eassumption.
    - destruct (bytes_eq_dec k' k) as [->|Hne].
      + rewrite lookup_insert_eq in Hl. discriminate.
      + rewrite lookup_insert_ne in Hl by exact Hne. eapply Hinv; eassumption.
  Qed.

  Lemma step_inv s x : key_sound -> Inv s -> detected x = true -> Inv (fst (step s x)).
  Proof.
    intros Hs Hinv Hd. destruct x as [names o|n c|names o [|]|k c|]; simpl.
    - apply compile_cached_inv; assumption.
    - exact Hinv.
    - exact Hinv.
    - apply compile_cached_inv; assumption.
    - apply corrupt_inv; [|exact Hinv]. intros v ->. discriminate Hd.
    - exact Hinv.
  Qed.

  (** (c) A populating process killed before the commit leaves the state as it
      was, killed after it leaves the state a completed call would leave; both
      preserve the invariant.  That there is no third outcome is the assumed
      atomicity of the diskcache/SQLite transaction (trusted base). *)
  Theorem crash_preserves_inv s names o ph :
    key_sound -> Inv s -> Inv (fst (step s (OCrash names o ph))).
  Proof. intros Hs Hinv. apply step_inv; [assumption | assumption | destruct ph; reflexivity]. Qed.

  Theorem run_inv fs h :
    key_sound -> forallb detected h = true ->
    Inv (fst (run (empty_state fs) h)) /\
    forall s x out, In (s, x, out) (snd (run (empty_state fs) h)) -> Inv s.
  Proof.
    intros Hs Hd.
    destruct (trace_inv Inv detected (fun s x Hi Hx => step_inv s x Hs Hi Hx) h _ (inv_empty fs) Hd)
      as [H1 H2].
    split; [exact H1|]. intros s x out Hin. apply (H2 s x out Hin).
  Qed.

  (** * Transparency of fault-free histories *)

  (** No damaged entry, db readable. *)
  Definition Clean (s : state) : Prop :=
    st_db_broken s = false /\ forall k, lookup k (st_cache s) <> Some Damaged.

  Lemma compile_cached_clean s names o : Clean s -> Clean (fst (compile_cached s names o)).
  Proof.
    intros Hc. unfold Model.compile_cached.
    destruct (read_all (st_fs s) names) as [cs|]; [|exact Hc].
    destruct (key cs o) as [k|]; [|exact Hc].
    destruct (st_db_broken s); [exact Hc|].
    destruct (lookup k (st_cache s)) as [[v|]|] eqn:El; try exact Hc.
    destruct (compile cs o) as [v|]; [|exact Hc].
    split; [reflexivity|]. intros k'. cbn [fst st_cache].
    destruct (bytes_eq_dec k' k) as [->|Hne].
    - rewrite lookup_insert_eq. discriminate.
    - rewrite lookup_insert_ne by exact Hne. apply Hc.
  Qed.

  Lemma step_clean s x : Clean s -> fault_free x = true -> Clean (fst (step s x)).
  Proof.
    intros Hc Hf. destruct x as [names o|n c|names o [|]|k c|]; simpl; try discriminate Hf.
    - apply compile_cached_clean; exact Hc.
    - exact Hc.
    - exact Hc.
    - apply compile_cached_clean; exact Hc.
  Qed.

  Lemma fault_free_detected x : fault_free x = true -> detected x = true.
  Proof. destruct x as [| | |k [| |v]|]; simpl; intros H; try reflexivity; discriminate H. Qed.

  Lemma compile_cached_transparent s names o :
    Inv s -> Clean s ->
    transparent_at s (OCompile names o) (snd (compile_cached s names o)).
  Proof.
    intros Hinv [Hb Hd]. unfold Model.transparent_at, Model.compile_cached, uncached.
    destruct (read_all (st_fs s) names) as [cs|e] eqn:Er; simpl; [|left; reflexivity].
    destruct (key cs o) as [k|e] eqn:Ek; simpl.
    2:{ right. exists cs, e. auto. }
    rewrite Hb.
    destruct (lookup k (st_cache s)) as [[v|]|] eqn:El; simpl.
    - left. symmetry. eapply Hinv; eassumption.
    - exfalso. eapply Hd; eassumption.
    - destruct (compile cs o); simpl; left; reflexivity.
  Qed.

  (** (a) If two requests with the same key always have the same uncached
      compile result — in particular if the key is injective on (file contents,
      options) pairs — then in every history of compiles with any files and
      options, file edits and writer crashes, starting from an empty cache
      directory, every compile_files call returns what the uncached call
      returns at that moment. *)
  Theorem cache_transparent :
    key_sound ->
    forall fs h, forallb fault_free h = true ->
    forall s x out, In (s, x, out) (snd (run (empty_state fs) h)) -> transparent_at s x out.
  Proof.
    intros Hs fs h Hf s x out Hin.
    pose (P := fun s => Inv s /\ Clean s).
    assert (Hstep : forall s x, P s -> fault_free x = true -> P (fst (step s x))).
    { intros s1 x1 [Hi Hc] Hx. split.
      - apply step_inv; [exact Hs | exact Hi | apply fault_free_detected; exact Hx].
      - apply step_clean; assumption. }
    assert (H0 : P (empty_state fs)).
    { split; [apply inv_empty|]. split; [reflexivity | intros k H; discriminate H]. }
    destruct (trace_inv P fault_free Hstep h _ H0 Hf) as [_ H2].
    destruct (H2 s x out Hin) as ([Hi Hc] & Hx & ->).
    destruct x as [names o|n c|names o ph|k c|]; try destruct ph; simpl; try exact I.
    apply compile_cached_transparent; assumption.
  Qed.

  Corollary cache_transparent_injective :
    key_injective ->
    forall fs h, forallb fault_free h = true ->
    forall s x out, In (s, x, out) (snd (run (empty_state fs) h)) -> transparent_at s x out.
  Proof. intros Hi. apply cache_transparent. apply injective_sound. exact Hi. Qed.

  (** The converse: soundness of the key is necessary.  Two requests with the
      same key whose uncached results differ (the first one succeeding) make
      the two-call history return the first Specification for the second
      request. *)
  Theorem unsound_key_not_transparent fs names names' f f' o o' k v :
    read_all fs names = Ok f -> read_all fs names' = Ok f' ->
    key f o = Ok k -> key f' o' = Ok k ->
    compile f o = Ok v -> compile f' o' <> Ok v ->
    let h := [OCompile names o; OCompile names' o'] in
    exists s, In (s, OCompile names' o', Ret true (Ok v)) (snd (run (empty_state fs) h)) /\
              uncached compile s names' o' <> Ok v.
  Proof.
    intros Hr Hr' Hk Hk' Hc Hc' h. subst h.
    set (s1 := mkState fs (insert k (Good v) []) false).
    exists s1. split.
    - simpl. unfold Model.compile_cached at 1. simpl. rewrite Hr, Hk. simpl. rewrite Hc.
      fold s1. unfold Model.compile_cached. simpl. rewrite Hr', Hk'. simpl.
      rewrite bytes_eqb_refl. right. left. reflexivity.
    - unfold uncached. simpl. rewrite Hr'. simpl. exact Hc'.
  Qed.

  (** * Faults *)

  Lemma compile_cached_safe s names o :
    Inv s -> safe_at s (OCompile names o) (snd (compile_cached s names o)).
  Proof.
    intros Hinv. unfold Model.safe_at, Model.compile_cached, uncached.
    destruct (read_all (st_fs s) names) as [cs|e] eqn:Er; simpl; [|left; reflexivity].
    destruct (key cs o) as [k|e] eqn:Ek; simpl; [|right; eauto].
    destruct (st_db_broken s); simpl; [right; eauto|].
    destruct (lookup k (st_cache s)) as [[v|]|] eqn:El; simpl.
    - left. symmetry. eapply Hinv; eassumption.
    - right. eauto.
    - destruct (compile cs o); simpl; left; reflexivity.
  Qed.

  (** Histories with crashes and with every kind of *detected* damage (entries
      lost, entries whose reading raises, an unreadable database): every call
      returns the uncached result or raises — never another Specification. *)
  Theorem cache_fault_safe :
    key_sound ->
    forall fs h, forallb detected h = true ->
    forall s x out, In (s, x, out) (snd (run (empty_state fs) h)) -> safe_at s x out.
  Proof.
    intros Hs fs h Hd s x out Hin.
    destruct (trace_inv Inv detected (fun s x Hi Hx => step_inv s x Hs Hi Hx) h _ (inv_empty fs) Hd)
      as [_ H2].
    destruct (H2 s x out Hin) as (Hi & Hx & ->).
    destruct x as [names o|n c|names o ph|k c|]; try destruct ph; simpl; try exact I.
    apply compile_cached_safe; exact Hi.
  Qed.

  (** Without the restriction the statement is false whatever the key is:
      stored bytes that are altered and still unpickle are returned as they
      are (diskcache keeps no checksum of the value). *)
  Theorem silent_alteration_refuted fs names f o k v w :
    read_all fs names = Ok f -> key f o = Ok k -> compile f o = Ok v -> w <> v ->
    let h := [OCompile names o; OCorrupt k (CAlter w); OCompile names o] in
    exists s, In (s, OCompile names o, Ret true (Ok w)) (snd (run (empty_state fs) h)) /\
              uncached compile s names o = Ok v /\ ~ safe_at s (OCompile names o) (Ret true (Ok w)).
  Proof.
    intros Hr Hk Hc Hw h. subst h.
    set (s2 := mkState fs (insert k (Good w) (insert k (Good v) [])) false).
    assert (Hu : uncached compile s2 names o = Ok v).
    { unfold uncached. simpl. rewrite Hr. simpl. exact Hc. }
    exists s2. split; [|split; [exact Hu|]].
    - simpl. unfold Model.compile_cached at 1. simpl. rewrite Hr, Hk. simpl. rewrite Hc. simpl.
      unfold corrupt. simpl. rewrite bytes_eqb_refl. fold s2.
      unfold Model.compile_cached. simpl. rewrite Hr, Hk. simpl. rewrite bytes_eqb_refl.
      right. right. left. reflexivity.
    - simpl. rewrite Hu. intros [H|[e H]]; [|discriminate H]. injection H as H. contradiction.
  Qed.
End Proofs.
