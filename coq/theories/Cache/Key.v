(** C17 — the cache key of asn1tools/compiler.py [_compile_files_cache].

    The key is a byte string built from an ordered list of *components*
    (codec name, option values, file contents) joined by a *framing*.  Which
    components are used, in which order, and which framing joins them is
    regenerated from /repo's source on every run by translator/cachekey.py into
    coq/gen/CacheKey.v; this file gives the meaning of every component and of
    both framings that have existed in the source:

      FrameNone : b''.join(parts)                               (as coded upstream)
      FrameLen8 : b''.join([struct.pack('>Q', len(p)) + p for p in parts])

    Bytes are [Z] (0..255 for data read from files); lengths are [nat].
    Python partiality is explicit: [codec.encode('ascii')] raises
    UnicodeEncodeError on a code point >= 128, [struct.pack('>Q', n)] raises
    struct.error when n >= 2^64.  No proofs in this file. *)
From Asn1V Require Import Base.Prelude.

Definition bytes := list Z.

(** The arguments of compile_files other than the file names and the cache
    directory.  [A] is the type of [any_defined_by_choices] values and [E] the
    type of [encoding] values: both are passed through to the uncached compile
    and enter the key only through Python's [repr] (an oracle, see [ser_a] and
    [ser_e] below). *)
Record opts (A E : Type) : Type := mkOpts {
  o_codec : list Z;            (* code points of the codec name string *)
  o_numeric_enums : bool;      (* truthiness of numeric_enums *)
  o_adbc : A;                  (* any_defined_by_choices *)
  o_encoding : E               (* encoding *)
}.
Arguments mkOpts {A E}.
Arguments o_codec {A E}.
Arguments o_numeric_enums {A E}.
Arguments o_adbc {A E}.
Arguments o_encoding {A E}.

Inductive comp : Type :=
| KCodec          (* codec.encode('ascii')                          *)
| KNumericEnums   (* repr(bool(numeric_enums)).encode('ascii')      *)
| KEncoding       (* repr(encoding).encode('utf-8')                 *)
| KAdbc           (* repr(any_defined_by_choices).encode('utf-8')   *)
| KFiles.         (* one part per file: open(filename,'rb').read()  *)

Inductive framing : Type := FrameNone | FrameLen8.

Definition comp_eqb (a b : comp) : bool :=
  match a, b with
  | KCodec, KCodec | KNumericEnums, KNumericEnums | KEncoding, KEncoding
  | KAdbc, KAdbc | KFiles, KFiles => true
  | _, _ => false
  end.

(** str.encode('ascii'). *)
Definition ascii_encode (s : list Z) : result bytes :=
  if forallb (fun c => (0 <=? c) && (c <? 128)) s then Ok s
  else Err (EForeign "UnicodeEncodeError").

(** repr(True) / repr(False) as ASCII. *)
Definition repr_bool (b : bool) : bytes :=
  if b then [84; 114; 117; 101] else [70; 97; 108; 115; 101].

(** [w] big-endian octets of [v] (struct.pack('>Q', v) for w = 8). *)
Fixpoint be_bytes (w : nat) (v : Z) : list Z :=
  match w with
  | O => []
  | S w' => be_bytes w' (v / 256) ++ [v mod 256]
  end.

Definition frame8 (p : bytes) : result bytes :=
  let n := Z.of_nat (length p) in
  if n <? 2 ^ 64 then Ok (be_bytes 8 n ++ p) else Err (EForeign "struct.error").

(** b''.join([struct.pack('>Q', len(p)) + p for p in parts]) *)
Fixpoint frame_all (parts : list bytes) : result bytes :=
  match parts with
  | [] => Ok []
  | p :: r => let* a := frame8 p in let* b := frame_all r in Ok (a ++ b)
  end.

Definition join (fr : framing) (parts : list bytes) : result bytes :=
  match fr with
  | FrameNone => Ok (concat parts)
  | FrameLen8 => frame_all parts
  end.

Section Key.
  Context {A E : Type}.
  (** Python's repr of the two pass-through option values, UTF-8 encoded. *)
  Variable ser_a : A -> bytes.
  Variable ser_e : E -> bytes.

  Definition part (files : list bytes) (o : opts A E) (c : comp) : result (list bytes) :=
    match c with
    | KCodec => let* b := ascii_encode (o_codec o) in Ok [b]
    | KNumericEnums => Ok [repr_bool (o_numeric_enums o)]
    | KEncoding => Ok [ser_e (o_encoding o)]
    | KAdbc => Ok [ser_a (o_adbc o)]
    | KFiles => Ok files
    end.

  (** The parts are evaluated left to right; the first failure propagates. *)
  Fixpoint parts (comps : list comp) (files : list bytes) (o : opts A E) : result (list bytes) :=
    match comps with
    | [] => Ok []
    | c :: r => let* a := part files o c in let* b := parts r files o in Ok (a ++ b)
    end.

  Definition key_of (comps : list comp) (fr : framing) (files : list bytes) (o : opts A E)
    : result bytes :=
    let* ps := parts comps files o in join fr ps.

  (** The key as coded upstream (compiler.py 251-260 at the pinned commit):
      codec name followed by the file contents, no separators, no options. *)
  Definition key_orig := key_of [KCodec; KFiles] FrameNone.

  (** The key of proposed_fixes/C17-cache-key.diff. *)
  Definition key_fixed := key_of [KCodec; KNumericEnums; KEncoding; KAdbc; KFiles] FrameLen8.

  (** Every argument the uncached compile depends on is a component. *)
  Definition covers (comps : list comp) : bool :=
    forallb (fun c => existsb (comp_eqb c) comps) [KCodec; KNumericEnums; KEncoding; KAdbc; KFiles].
End Key.

(** The eight codec names accepted by compile_dict (compiler.py 304-313). *)
Definition str (s : string) : list Z := map (fun a => Z.of_nat (nat_of_ascii a)) (list_ascii_of_string s).
Definition valid_codecs : list (list Z) :=
  map str ["ber"; "der"; "gser"; "jer"; "oer"; "per"; "uper"; "xer"]%string.
