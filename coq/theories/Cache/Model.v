(** C17 — model of compile_files with a cache directory (compiler.py
    _compile_files_cache 245-272, compile_files 379-394) as a state machine
    over histories of operations on one cache directory.

    State: the files on disk (name -> contents) and the cache store, an
    association list from keys (byte strings) to entries.  The uncached
    compile and the key function are Section variables, so every theorem of
    Cache/Proofs.v holds for whatever the real compile and the real key are;
    Cache/Instance.v instantiates the key with the construction regenerated
    from /repo (coq/gen/CacheKey.v) and a table-driven compile for the
    correspondence run.

    diskcache/SQLite are an oracle: their behaviour is the *assumed* meaning of
    [lookup]/[insert] below (a committed entry is found again under exactly
    the same key bytes; an uncommitted one is absent; see [OCrash]).  What a
    killed writer or a damaged file really does is observed by the fault runs
    of harness/c17.py, not proved.  No proofs in this file. *)
From Asn1V Require Import Base.Prelude Cache.Key.

Fixpoint bytes_eqb (a b : bytes) : bool :=
  match a, b with
  | [], [] => true
  | x :: a', y :: b' => (x =? y) && bytes_eqb a' b'
  | _, _ => false
  end.

Section Model.
  Context {A E spec : Type}.
  Variable key : list bytes -> opts A E -> result bytes.
  (** compile_dict(parse_files(filenames, encoding), codec,
      any_defined_by_choices, numeric_enums) as a function of the file
      contents and the options; [Err] is a ParseError/CompileError/.... *)
  Variable compile : list bytes -> opts A E -> result spec.

  (** A stored value: the pickled Specification reads back as itself, or the
      stored bytes are damaged in a way that makes reading fail. *)
  Inductive entry : Type :=
  | Good (s : spec)
  | Damaged.

  Record state : Type := mkState {
    st_fs : list (Z * bytes);          (* file name -> contents               *)
    st_cache : list (bytes * entry);   (* key -> entry, first match wins      *)
    st_db_broken : bool                (* cache.db unreadable as a whole      *)
  }.

  Definition empty_state (fs : list (Z * bytes)) : state := mkState fs [] false.

  Fixpoint lookup {V} (k : bytes) (m : list (bytes * V)) : option V :=
    match m with
    | [] => None
    | (k', v) :: r => if bytes_eqb k k' then Some v else lookup k r
    end.
  Fixpoint remove {V} (k : bytes) (m : list (bytes * V)) : list (bytes * V) :=
    match m with
    | [] => []
    | (k', v) :: r => if bytes_eqb k k' then remove k r else (k', v) :: remove k r
    end.
  Definition insert {V} (k : bytes) (v : V) (m : list (bytes * V)) : list (bytes * V) :=
    (k, v) :: remove k m.

  Fixpoint read_file (fs : list (Z * bytes)) (n : Z) : result bytes :=
    match fs with
    | [] => Err (EForeign "FileNotFoundError")
    | (n', c) :: r => if n =? n' then Ok c else read_file r n
    end.
  Fixpoint read_all (fs : list (Z * bytes)) (names : list Z) : result (list bytes) :=
    match names with
    | [] => Ok []
    | n :: r => let* c := read_file fs n in let* cs := read_all fs r in Ok (c :: cs)
    end.
  Definition write_file (fs : list (Z * bytes)) (n : Z) (c : bytes) : list (Z * bytes) :=
    (n, c) :: fs.

  (** compile_files(names, ..., cache_dir=None). *)
  Definition uncached (s : state) (names : list Z) (o : opts A E) : result spec :=
    let* cs := read_all (st_fs s) names in compile cs o.

  Inductive phase : Type :=
  | BeforeCommit     (* killed before the SQLite transaction of cache[key] = ... committed *)
  | AfterCommit.     (* killed after it *)

  Inductive corruption : Type :=
  | CLose            (* the entry disappears (value file deleted, row lost)           *)
  | CDamage          (* reading the entry raises (truncated/garbled pickle, bad page)  *)
  | CAlter (s : spec). (* the stored bytes change and still unpickle, to [s]           *)

  Inductive op : Type :=
  | OCompile (names : list Z) (o : opts A E)
  | OEdit (name : Z) (content : bytes)
  | OCrash (names : list Z) (o : opts A E) (ph : phase)
  | OCorrupt (k : bytes) (c : corruption)
  | OCorruptDb.

  (** What a compile_files call returned, and whether the store answered. *)
  Inductive outcome : Type :=
  | Ret (hit : bool) (r : result spec)
  | NoRet.

  (** compile_files(names, codec, adbc, encoding, cache_dir=d, numeric_enums):
        key = ...                      (reads every file; may raise)
        cache = diskcache.Cache(d)
        try: return cache[key]
        except KeyError:
            compiled = compile_dict(parse_files(...), ...)   (may raise)
            cache[key] = compiled
            return compiled                                   *)
  Definition compile_cached (s : state) (names : list Z) (o : opts A E) : state * outcome :=
    match read_all (st_fs s) names with
    | Err e => (s, Ret false (Err e))
    | Ok cs =>
      match key cs o with
      | Err e => (s, Ret false (Err e))
      | Ok k =>
        if st_db_broken s then (s, Ret false (Err (EForeign "DatabaseError"))) else
        match lookup k (st_cache s) with
        | Some (Good v) => (s, Ret true (Ok v))
        | Some Damaged => (s, Ret true (Err (EForeign "UnpicklingError")))
        | None =>
          match compile cs o with
          | Err e => (s, Ret false (Err e))
          | Ok v => (mkState (st_fs s) (insert k (Good v) (st_cache s)) false, Ret false (Ok v))
          end
        end
      end
    end.

  Definition corrupt (k : bytes) (c : corruption) (m : list (bytes * entry)) : list (bytes * entry) :=
    match lookup k m with
    | None => m
    | Some _ =>
      match c with
      | CLose => remove k m
      | CDamage => insert k Damaged m
      | CAlter v => insert k (Good v) m
      end
    end.

  Definition step (s : state) (x : op) : state * outcome :=
    match x with
    | OCompile names o => compile_cached s names o
    | OEdit n c => (mkState (write_file (st_fs s) n c) (st_cache s) (st_db_broken s), NoRet)
    | OCrash names o BeforeCommit => (s, NoRet)
    | OCrash names o AfterCommit => (fst (compile_cached s names o), NoRet)
    | OCorrupt k c => (mkState (st_fs s) (corrupt k c (st_cache s)) (st_db_broken s), NoRet)
    | OCorruptDb => (mkState (st_fs s) (st_cache s) true, NoRet)
    end.

  (** Run a history; the trace records, for every operation, the state it
      started from and what it returned. *)
  Fixpoint run (s : state) (h : list op) : state * list (state * op * outcome) :=
    match h with
    | [] => (s, [])
    | x :: r =>
      let '(s', out) := step s x in
      let '(sf, tr) := run s' r in
      (sf, (s, x, out) :: tr)
    end.

  (** Histories without silent alteration of stored bytes: every fault is
      either the atomic crash of a writer or damage that the store/pickle
      layer detects. *)
  Definition detected (x : op) : bool :=
    match x with OCorrupt _ (CAlter _) => false | _ => true end.
  (** Histories without any fault of the store. *)
  Definition fault_free (x : op) : bool :=
    match x with OCorrupt _ _ | OCorruptDb => false | _ => true end.
End Model.

Arguments Good {spec} s.
Arguments Damaged {spec}.
Arguments OCompile {A E spec} names o.
Arguments OEdit {A E spec} name content.
Arguments OCrash {A E spec} names o ph.
Arguments OCorrupt {A E spec} k c.
Arguments OCorruptDb {A E spec}.
Arguments CLose {spec}.
Arguments CDamage {spec}.
Arguments CAlter {spec} s.
Arguments Ret {spec} hit r.
Arguments NoRet {spec}.
Arguments mkState {spec} st_fs st_cache st_db_broken.
Arguments st_fs {spec} s.
Arguments st_cache {spec} s.
Arguments st_db_broken {spec} s.
Arguments empty_state {spec} fs.

(** * What the property says about a history (statements only) *)
Section Spec.
  Context {A E spec : Type}.
  Variable key : list bytes -> opts A E -> result bytes.
  Variable compile : list bytes -> opts A E -> result spec.

  (** The key determines the request ... *)
  Definition key_injective : Prop :=
    forall f o f' o' k, key f o = Ok k -> key f' o' = Ok k -> f = f' /\ o = o'.
  (** ... or at least its compile result (the exact condition, see
      [cache_transparent] and [unsound_key_not_transparent]). *)
  Definition key_sound : Prop :=
    forall f o f' o' k, key f o = Ok k -> key f' o' = Ok k -> compile f o = compile f' o'.

  (** DESIGN.md section 6: every readable entry is the uncached compile of
      every request that maps to its key. *)
  Definition Inv (s : @state spec) : Prop :=
    forall k c, lookup k (st_cache s) = Some (Good c) ->
    forall f o, key f o = Ok k -> compile f o = Ok c.

  (** A compile_files call with a cache directory returned exactly what the
      call without one returns in the same file-system state (the same
      Specification or the same exception); the only other possibility is
      that building the key itself raised (non-ASCII codec name, a part of
      2^64 octets or more), which is an error, not a Specification. *)
  Definition transparent_at (s : @state spec) (x : @op A E spec) (out : @outcome spec) : Prop :=
    match x, out with
    | OCompile names o, Ret _ r =>
      r = uncached compile s names o \/
      (exists cs e, read_all (st_fs s) names = Ok cs /\ key cs o = Err e /\ r = Err e)
    | OCompile _ _, NoRet => False
    | _, _ => True
    end.

  (** "A damaged cache may cause an error but never a wrong codec". *)
  Definition safe_at (s : @state spec) (x : @op A E spec) (out : @outcome spec) : Prop :=
    match x, out with
    | OCompile names o, Ret _ r => r = uncached compile s names o \/ exists e, r = Err e
    | OCompile _ _, NoRet => False
    | _, _ => True
    end.

  Definition trace_of (fs : list (Z * bytes)) (h : list (@op A E spec)) :=
    snd (run key compile (empty_state fs) h).
End Spec.
