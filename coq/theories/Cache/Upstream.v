(** C17 — the key as coded upstream (codec name ++ file contents) makes the
    cache NOT transparent: three two-call histories whose second call is a hit
    on the entry of a different request.  The uncached compile is the free
    one (the Specification *is* the request), so "different request" is
    "different Specification"; harness/c17.py replays the same three histories
    on /repo, where the real compile tells the requests apart by behaviour. *)
From Asn1V Require Import Base.Prelude Cache.Key Cache.KeyProofs Cache.Model Cache.Proofs.

Definition uopts := opts bool bool.
Definition free_compile (f : list bytes) (o : uopts) : result (list bytes * uopts) := Ok (f, o).
Definition upstream_key : list bytes -> uopts -> result bytes := key_orig (fun _ => []) (fun _ => []).

Definition ber (n : bool) (a e : bool) : uopts := mkOpts (str "ber") n a e.

(** The files of the three witnesses: 0,1 = 'ab','c'; 2,3 = 'a','bc';
    4 = 'erX'; 5 = 'X'. *)
Definition wfs : list (Z * bytes) :=
  [(0, [97; 98]); (1, [99]); (2, [97]); (3, [98; 99]); (4, [101; 114; 88]); (5, [88])].

Definition wrong_hit (names names' : list Z) (o o' : uopts) : Prop :=
  exists s v, In (s, OCompile names' o', Ret true (Ok v))
                 (snd (run upstream_key free_compile (empty_state wfs)
                           [OCompile names o; OCompile names' o'])) /\
              uncached free_compile s names' o' <> Ok v.

Lemma wrong_hit_intro names names' o o' f f' k :
  read_all wfs names = Ok f -> read_all wfs names' = Ok f' ->
  upstream_key f o = Ok k -> upstream_key f' o' = Ok k -> (f, o) <> (f', o') ->
  wrong_hit names names' o o'.
Proof.
  intros Hr Hr' Hk Hk' Hne.
  destruct (unsound_key_not_transparent upstream_key free_compile wfs names names' f f' o o' k (f, o)
              Hr Hr' Hk Hk' eq_refl) as (s & Hin & Hu).
  - unfold free_compile. intros H. injection H as -> ->. apply Hne. reflexivity.
  - exists s, (f, o). split; assumption.
Qed.

Theorem upstream_key_not_transparent_refuted :
  (* numeric_enums differs *)
  wrong_hit [0; 1] [0; 1] (ber false false false) (ber true false false) /\
  (* any_defined_by_choices differs *)
  wrong_hit [0; 1] [0; 1] (ber false false false) (ber false true false) /\
  (* encoding differs *)
  wrong_hit [0; 1] [0; 1] (ber false false false) (ber false false true) /\
  (* the same text split differently into files: 'ab','c' then 'a','bc' *)
  wrong_hit [0; 1] [2; 3] (ber false false false) (ber false false false) /\
  (* codec 'ber' on file 'X', then the unsupported codec 'b' on file 'erX' *)
  wrong_hit [5] [4] (ber false false false) (mkOpts (str "b") false false false).
Proof.
  repeat split.
  - eapply wrong_hit_intro; try reflexivity. intros H; discriminate H.
  - eapply wrong_hit_intro; try reflexivity. intros H; discriminate H.
  - eapply wrong_hit_intro; try reflexivity. intros H; discriminate H.
  - eapply wrong_hit_intro; try reflexivity. intros H; discriminate H.
  - eapply wrong_hit_intro; try reflexivity. intros H; discriminate H.
Qed.
