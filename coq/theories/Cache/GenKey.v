(** C17 — the key construction CURRENTLY in /repo (regenerated into
    coq/gen/CacheKey.v by translator/cachekey.py on every run) is injective,
    hence the cache is transparent.  This file stops compiling as soon as an
    edit of _compile_files_cache drops a component from the key or joins the
    parts without length prefixes: [covers] / [frame = FrameLen8] are decided
    by computation on the regenerated text. *)
From Asn1V Require Import Base.Prelude Cache.Key Cache.KeyProofs Cache.Model Cache.Proofs Cache.Instance.
From Asn1Gen Require CacheKey.

Lemma repo_components_cover : covers CacheKey.components = true.
Proof. vm_compute. reflexivity. Qed.

Lemma repo_frame_len8 : CacheKey.frame = FrameLen8.
Proof. reflexivity. Qed.

Section Gen.
  Context {A E spec : Type}.
  Variable ser_a : A -> bytes.
  Variable ser_e : E -> bytes.
  Hypothesis ser_a_inj : forall x y, ser_a x = ser_a y -> x = y.
  Hypothesis ser_e_inj : forall x y, ser_e x = ser_e y -> x = y.
  Variable compile : list bytes -> opts A E -> result spec.

  Theorem repo_key_injective : key_injective (repo_key ser_a ser_e).
  Proof.
    intros f o f' o' k H H'. unfold repo_key in H, H'. rewrite repo_frame_len8 in H, H'.
    exact (key_of_injective ser_a ser_e ser_a_inj ser_e_inj _ f f' o o' k repo_components_cover H H').
  Qed.

  Theorem repo_cache_transparent :
    forall fs h, forallb (@fault_free A E spec) h = true ->
    forall s x out, In (s, x, out) (trace_of (repo_key ser_a ser_e) compile fs h) ->
    transparent_at (repo_key ser_a ser_e) compile s x out.
  Proof. apply cache_transparent_injective. exact repo_key_injective. Qed.

  Theorem repo_cache_fault_safe :
    forall fs h, forallb (@detected A E spec) h = true ->
    forall s x out, In (s, x, out) (trace_of (repo_key ser_a ser_e) compile fs h) ->
    safe_at compile s x out.
  Proof. apply cache_fault_safe. apply injective_sound. exact repo_key_injective. Qed.
End Gen.
