#!/bin/bash
# usage: goal.sh theories/X/F.v LINE  -> prints the proof state just before LINE
f=$1; n=$2; d=$(dirname $f); b=$(basename $f .v)
tmp=$d/Tmp_goal_$b.v
head -n $((n-1)) $f > $tmp; echo "Show." >> $tmp
coqc -Q theories Asn1V -Q gen Asn1Gen $tmp 2>&1 | grep -v conda | head -${3:-60}
rm -f $d/Tmp_goal_$b.* $d/.Tmp_goal_$b.*
